"""Per-property check specification read by ./check: harness binaries, flavours, engines, budgets."""
import os, subprocess

ASAN_SAN = '-fsanitize=address,bounds,null,shift-exponent,unreachable,return,integer-divide-by-zero'
FLAVOURS = {
    # sanitizer flavour: clang ASan + a reduced UBSan set (see DESIGN 2.5), asserts on
    'asan': dict(cxx='clang++', flags=['-std=gnu++17', '-O1', '-g', '-march=haswell', ASAN_SAN, '-fno-sanitize-recover=all',
                                       '-fno-omit-frame-pointer'], libs=['-lrapidcheck']),
    # the same with the SSE (westmere) kernels: the 16-byte variants of every .inc.h routine under ASan
    'wasan': dict(cxx='clang++', flags=['-std=gnu++17', '-O1', '-g', '-march=westmere', ASAN_SAN, '-fno-sanitize-recover=all',
                                        '-fno-omit-frame-pointer'], libs=['-lrapidcheck']),
    # production flavour: what users ship (no sanitizer => the library's direct over-read / in-page fast paths are live)
    'prod': dict(cxx='g++', flags=['-std=gnu++17', '-O2', '-g', '-march=haswell'], libs=['-lrapidcheck']),
    'wsm': dict(cxx='g++', flags=['-std=gnu++17', '-O2', '-g', '-march=westmere'], libs=['-lrapidcheck']),
    'dyn': dict(cxx='g++', flags=['-std=gnu++17', '-O2', '-g', '-march=westmere', '-DSONIC_DYNAMIC_DISPATCH'], libs=['-lrapidcheck']),
    # link flavour for the multi-configuration binary of C15: parts carry their own -march / sanitizer flags
    'multi': dict(cxx='g++', flags=['-std=gnu++17', '-O1', '-g', '-fsanitize=address'], libs=['-lrapidcheck']),
    'tsan': dict(cxx='clang++', flags=['-std=gnu++17', '-O1', '-g', '-march=haswell', '-fsanitize=thread'],
                 libs=['-lrapidcheck', '-lpthread']),
    # ThreadSanitizer again, in the configurations whose vector accesses it can see: clang's pass instruments accesses of up to 16
    # bytes only (the 32-byte AVX2 loads of the haswell build are invisible to it), so the SSE build and a g++ build are added
    'wtsan': dict(cxx='clang++', flags=['-std=gnu++17', '-O1', '-g', '-march=westmere', '-fsanitize=thread'], libs=['-lrapidcheck', '-lpthread']),
    'gtsan': dict(cxx='g++', flags=['-std=gnu++17', '-O1', '-g', '-march=haswell', '-fsanitize=thread'], libs=['-lrapidcheck', '-lpthread']),
    'fuzz': dict(cxx='clang++', flags=['-std=gnu++17', '-O1', '-g', '-march=haswell', ASAN_SAN.replace('address', 'fuzzer,address'),
                                       '-fno-sanitize-recover=all', '-DVF_FUZZ'], libs=['-lrapidcheck']),
    # dynamic dispatch (ifunc resolvers pick the AVX2 clones on this host) under g++ ASan
    'dynasan': dict(cxx='g++', flags=['-std=gnu++17', '-O1', '-g', '-march=westmere', '-DSONIC_DYNAMIC_DISPATCH', '-fsanitize=address',
                                      '-fno-omit-frame-pointer'], libs=['-lrapidcheck']),
    'gasan': dict(cxx='g++', flags=['-std=gnu++17', '-O1', '-g', '-march=haswell', '-fsanitize=address'], libs=['-lrapidcheck']),
}

COMMON_ASSUMPTIONS = [
    'search never proves absence: the property is claimed only for the cases explored (counts above)',
    'the independent reference implementation (src/common/refjson.cpp) is correct; it is cross-checked against python json at setup',
    'glibc strtod/snprintf are correctly rounded / exact',
    'host CPU supports AVX2; sanitizers are clang 14 / gcc 12',
]


def B(name, src, flavour, **kw):
    d = dict(name=name + '.' + flavour, src=[src] if isinstance(src, str) else src, flavour=flavour)
    d.update(kw)
    return d


def U(bin_, engine, quick, thorough, wq=2, wt=8, **kw):
    d = dict(bin=bin_, engine=engine, cases=dict(quick=quick, thorough=thorough), workers=dict(quick=wq, thorough=wt))
    d.update(kw)
    return d


def F(bin_, quick_s, thorough_s, wq=2, wt=8, **kw):
    d = dict(bin=bin_, kind='fuzz', seconds=dict(quick=quick_s, thorough=thorough_s), workers=dict(quick=wq, thorough=wt))
    d.update(kw)
    return d


PROPS = {}

c01 = B('c01_parse', 'c01_parse.cpp', 'asan')
fz01 = B('fz_parse', 'c01_parse.cpp', 'fuzz')
PROPS['C01'] = dict(
    title='Parse accepts exactly RFC 8259 and reports failure coherently',
    units=[
        U(c01, 'rc', 3000, 60000, wq=4, wt=6, label='c01-rc'),
        U(c01, 'prng', 60000, 3000000, wq=4, wt=6, label='c01-prng'),
        U(B('c01_parse', 'c01_parse.cpp', 'wasan'), 'prng', 30000, 1500000, wq=2, wt=3, label='c01-sse-asan'),
        U(B('c01_parse', 'c01_parse.cpp', 'prod'), 'prng', 60000, 3000000, wq=2, wt=3, label='c01-prod'),
        U(B('c01_parse', 'c01_parse.cpp', 'dynasan'), 'prng', 30000, 1500000, wq=2, wt=3, label='c01-dynamic-asan'),
        F(fz01, 20, 600, wq=4, wt=4, label='fz_parse', dict='fuzz/json.dict', seeds='fuzz/seeds/json'),
    ],
    harness_alias={'fz_parse': 'c01_parse'},
    rule='cases: valid texts rendered from generated values with random layouts, single/double-fault mutants '
         '(truncation, byte replace/insert/delete, comma/colon/bracket faults, bad numbers, bad literals, control bytes, '
         'bad escapes, unterminated strings), nesting stress and every prefix of small documents, each at pad offsets 0..70; '
         'a quarter of the texts and every prefix sweep are repeated on a document (pool inside a caller-supplied buffer) that parsed '
         'a longer valid text before, Clear()ed in between or not: stale bytes of the earlier text lie behind the new one; '
         'plus coverage-guided byte strings (libFuzzer). Oracle: independent RFC 8259 recogniser (accept <=> success), '
         'offset==len on success, null document + parse-family code + offset in [0,len] on failure, code names the fault '
         'class when the first fault is unambiguous, verdict/value invariant under the pad. Non-trivial: text has >= 2 bytes '
         'and the verdict is not decided at byte 0; distinct = distinct pick sequence + text hash (fuzz: corpus units).',
    min_evaluations=dict(quick=20000, thorough=500000),
    required_classes=['valid', 'invalid:structural', 'invalid:truncated', 'invalid:ctrl-in-string', 'invalid:bad-escape',
                      'invalid:bad-unicode-hex', 'invalid:number-overflow', 'mode:prefixes', 'mode:nesting', 'document:recycled-after-Clear'],
    assumptions=['texts whose only questionable feature is an unpaired surrogate escape are judged by C05, not here'],
)

c03 = B('c03_value', 'c03_value.cpp', 'asan')
fz03 = B('fz_value', 'c03_value.cpp', 'fuzz')
PROPS['C03'] = dict(
    title='A successful Parse yields exactly the value the text denotes',
    units=[
        U(c03, 'rc', 1500, 40000, wq=4, wt=6, label='c03-rc'),
        U(c03, 'prng', 12000, 600000, wq=6, wt=8, label='c03-prng'),
        U(B('c03_value', 'c03_value.cpp', 'prod'), 'prng', 15000, 800000, wq=2, wt=4, label='c03-prod'),
        U(B('c03_value', 'c03_value.cpp', 'wasan'), 'prng', 5000, 250000, wq=2, wt=3, label='c03-sse-asan'),
        U(B('c03_value', 'c03_value.cpp', 'dynasan'), 'prng', 5000, 250000, wq=2, wt=3, label='c03-dynamic-asan'),
        F(fz03, 15, 600, wq=2, wt=2, label='fz_value', dict='fuzz/json.dict', seeds='fuzz/seeds/json'),
    ],
    harness_alias={'fz_value': 'c03_value'},
    rule='cases: model values (all kinds, depth <= 12, 0..130 children, duplicate keys, strings with escapes/UTF-8/control bytes, '
         'boundary integers and doubles) rendered with random layouts (whitespace runs up to 200 bytes, leading pad 0..130, a '
         'bracket forced onto offset 63/64/65 of a block), parsed with the pool and the freeing allocator into a fresh document, a '
         'document that parsed a longer text before, the same after Clear() of its pool, or one whose previous parse failed; plus libFuzzer byte '
         'strings that the reference accepts. Oracle: accessor-API walk of the document == generating value == refjson parse '
         '(kinds and double bits exact, member order and duplicates kept); FindMember returns the first match; lookups and '
         'AtPointer agree. Non-trivial: a container with >= 2 children, or a whitespace run >= 64, or depth >= 3.',
    min_evaluations=dict(quick=8000, thorough=200000),
    required_classes=['dup-keys', 'ws-run>=64', 'forced-bracket-at-block-edge', 'alloc:pool', 'alloc:freeing', 'depth=6+', 'document:reparsed-after-pool-Clear', 'document:reparsed-after-failed-parse'],
)

c02 = B('c02_safety', 'c02_safety.cpp', 'asan')
c02p = B('c02_safety', 'c02_safety.cpp', 'prod')
fz02 = B('fz_safety', 'c02_safety.cpp', 'fuzz')
FILL = 'max_malloc_fill_size=1073741824:malloc_fill_byte=%d'
PROPS['C02'] = dict(
    title='Parse is total and memory-safe on arbitrary bytes for every allocator kind',
    units=[
        U(c02, 'prng', 15000, 500000, wq=1, wt=2, label='c02-asan-fill0c', asan_options=FILL % 0x0c),
        U(c02, 'prng', 15000, 500000, wq=1, wt=2, label='c02-asan-fill06', asan_options=FILL % 0x06),
        U(c02, 'prng', 15000, 500000, wq=1, wt=2, label='c02-asan-fill07', asan_options=FILL % 0x07),
        U(c02, 'rc', 1500, 30000, wq=2, wt=3, label='c02-asan-rc', asan_options=FILL % 0xbe),
        U(c02p, 'prng', 15000, 500000, wq=2, wt=3, label='c02-prod-perturb'),
        U(B('c02_safety', 'c02_safety.cpp', 'wasan'), 'prng', 10000, 400000, wq=2, wt=2, label='c02-sse-asan', asan_options=FILL % 0x0c),
        U(B('c02_safety_adaptive', 'c02_safety.cpp', 'asan', defines=['-DSONIC_ADAPTIVE_MEMORYPOOL'], harness='c02_safety'), 'prng', 12000, 400000, wq=2, wt=3,
          label='c02-adaptive-pool-build', asan_options=FILL % 0x06),
        F(fz02, 15, 600, wq=3, wt=4, label='fz_safety', dict='fuzz/json.dict', seeds='fuzz/seeds/safety', field='raw',
          asan_options=FILL % 0x0c),
    ],
    harness_alias={'fz_safety': 'c02_safety'},
    rule='cases: (text, allocator kind, history). Texts: valid, single/double-fault mutants, nesting stress up to depth 1000, '
         'wide+deep containers (0..300 children, 1 in 12: 2047..9000 children; 1 in 40 of the nesting texts longer than 64 KiB: single '
         'pool requests around and above the chunk cap) with a failure injected at depth 1..20, libFuzzer byte strings. Allocator kinds: pool, '
         'SimpleAllocator (really frees), tracking allocator (ledger), pool with adaptive chunk policy, pool working inside a '
         'caller-supplied buffer (64..4096 bytes at offset 0..7 of a heap block of exactly that size); one unit is built with '
         '-DSONIC_ADAPTIVE_MEMORYPOOL (every pool then starts with 1 KiB chunks and grows them - without it the adaptive policy '
         'starts saturated at 64 KiB). Histories: fresh; '
         'valid-then-input; input twice; input-then-valid-then-serialise; input then move-assign; move-construct; swap; valid + ParseSchema + input twice. '
         'Oracle: ASan+LSan and a reduced UBSan set with heap fill bytes 0x0c/0x06/0x07/0xbe (an unconstructed node then looks '
         'like an owned string/object/array), tracking-allocator ledger (no foreign/double free, nothing live after '
         'destruction), production build under mallopt(M_PERTURB) with outcome (code, offset, Dump) required to be '
         'independent of the perturbation, and - for the pool in a caller-supplied buffer, in every build - independent of seven '
         'different pre-fills of that buffer (closers, commas, quotes, blanks ...), same outcome when parsed twice, document reusable and correct after a failure. '
         'Non-trivial: invalid with a container open or >1 byte consumed, or valid with depth >= 2.',
    min_evaluations=dict(quick=20000, thorough=500000),
    required_classes=['alloc:pool', 'alloc:freeing', 'alloc:tracking', 'alloc:adaptive-pool', 'alloc:pool-in-user-buffer', 'user-buffer:misaligned', 'wide:>=2047-children', 'text>64KiB', 'invalid@depth4+', 'valid',
                      'history:0', 'history:6', 'history:7'],
    assumptions=['MemorySanitizer is unusable here (uninstrumented libstdc++): acting on uninitialised values is detected '
                 'through its influence on behaviour under heap-fill perturbation, not as every uninitialised read'],
)

c05 = B('c05_strings', 'c05_strings.cpp', 'asan')
fz05 = B('fz_string', 'c05_strings.cpp', 'fuzz')
PROPS['C05'] = dict(
    title='String literals decode exactly per RFC 8259 escapes, wherever they sit',
    units=[
        U(c05, 'prng', 250000, 6000000, wq=4, wt=8, label='c05-prng'),
        U(B('c05_strings', 'c05_strings.cpp', 'wasan'), 'prng', 150000, 4000000, wq=3, wt=4, label='c05-sse-asan'),
        U(c05, 'rc', 4000, 100000, wq=2, wt=2, label='c05-rc'),
        U(c05, 'prng', 1024, 1024 * 24, wq=2, wt=6, label='c05-exhaustive-u', args=['--exhaustive-u']),
        U(B('c05_strings', 'c05_strings.cpp', 'wasan'), 'prng', 1024, 1024 * 8, wq=1, wt=2, label='c05-exhaustive-u-sse', args=['--exhaustive-u']),
        U(B('c05_strings', 'c05_strings.cpp', 'dynasan'), 'prng', 100000, 3000000, wq=2, wt=3, label='c05-dynamic-asan'),
        U(B('c05_strings', 'c05_strings.cpp', 'dynasan'), 'prng', 1024, 1024 * 8, wq=1, wt=2, label='c05-exhaustive-u-dynamic', args=['--exhaustive-u']),
        U(c05, 'prng', 4096, 4096 * 4, wq=2, wt=4, label='c05-exhaustive-pairs', args=['--exhaustive-pairs'], cap_s=dict(quick=120, thorough=900)),
        F(fz05, 15, 600, wq=2, wt=2, label='fz_string', field='body', dict='fuzz/string.dict', max_len=300),
    ],
    harness_alias={'fz_string': 'c05_strings'},
    exhaustive=dict(quick=False, thorough=False),
    rule='cases: literal = filler(0..69 bytes) + feature + filler, so the feature sits at every offset of the 16/32-byte grid; '
         'features: the 8 short escapes, \\uXXXX (all 65536 values enumerated completely by the exhaustive-u unit in each of '
         '4 contexts, every run), all 1024 x 1024 high+low surrogate pairs (exhaustive-pairs unit, each of 4 contexts, every run) and '
         '~100 non-low second escapes per high surrogate, surrogate-region singles and ordered pairs, every raw byte, every byte after a backslash, '
         'malformed \\u, unpaired/misordered surrogates, runs of consecutive escapes; fillers plain ASCII, ASCII mixed with '
         'bytes >= 0x80, or any unescaped-legal byte; one case in three has a valid escape before the feature (post-escape '
         'decoder path); AVX2 and SSE (-march=westmere) sanitizer builds; contexts: root value, array element, '
         'object key+value, on-demand key, a member name the on-demand scan has to step over before a longer wanted key, UpdateLazy key, and the decoding kernel called directly on a padded buffer (in the '
         'runtime-dispatch build: the dispatcher, the SSE clone and the AVX2 clone); 1 valid case in 100 also looks escaped keys up on four threads at once; plus libFuzzer over literal bodies. Oracle: refjson.unescape '
         '(accept/reject, decoded bytes, error class when the literal holds one fault kind). Non-trivial: invalid literal, '
         'or >= 16 bytes with an escape, or a control/high byte.',
    min_evaluations=dict(quick=200000, thorough=3000000),
    required_classes=['feature:short-escape', 'feature:u-pair', 'feature:high-surrogate-unpaired', 'feature:low-surrogate-first',
                      'feature:raw-control', 'feature:escape-run', 'ctx:key', 'ctx:ondemand-key', 'ctx:updatelazy-key', 'ctx:kernel', 'ctx:ondemand-scan-over-key', 'four-threads',
                      'escape-before-feature+high-bytes'],
)

c04 = B('c04_numbers', 'c04_numbers.cpp', 'asan')
c04p = B('c04_numbers', 'c04_numbers.cpp', 'prod')
fz04 = B('fz_number', 'c04_numbers.cpp', 'fuzz')
PROPS['C04'] = dict(
    title='Numbers parse to the exact integer or the correctly rounded double',
    units=[
        U(c04, 'prng', 400000, 12000000, wq=4, wt=8, label='c04-asan'),
        U(c04p, 'prng', 1000000, 40000000, wq=3, wt=6, label='c04-prod'),
        U(c04, 'rc', 5000, 100000, wq=2, wt=2, label='c04-rc'),
        U(c04p, 'prng', 400000, 12000000, wq=2, wt=3, label='c04-daz-ftz', args=['--daz']),
        F(fz04, 15, 600, wq=2, wt=2, label='fz_number', field='num', dict='fuzz/number.dict', max_len=400),
    ],
    harness_alias={'fz_number': 'c04_numbers'},
    rule='cases: JSON number spellings from six strata - integers of 1..22 digits and the 2^63/2^64/10^19 boundaries; '
         'mantissa(1..19 digits) x every decimal exponent -348..347 (table rows rotated by case index; rows touched reported); '
         'exact midpoints between adjacent doubles (all binary exponents, subnormals) truncated to 17..770 digits and +-1 unit in '
         'the last place, and the exact midpoint padded with zeros to 20..830 significant digits with a last non-zero digit (or '
         'the digit string just below it; totals 790..812 dense); mantissas of 20..2000 digits followed by exponent/fraction/nothing; zeros in every spelling; '
         'overflow/underflow boundaries - each spelled scientific / integer-mantissa / positional with e|E and +, at the root, '
         'in an array, as an object value, at pad 0..40; a quarter of the cases enter through ParseSchema (into an existing member / an '
         'existing scalar root) or ParseOnDemand instead of Parse; one unit parses with MXCSR.DAZ|FTZ set. Oracle: integer rule of the statement, else glibc strtod bits on the '
         'identical spelling, strtod==inf => kParseErrorInfinity. Non-trivial: more than 15 significant digits or not a plain '
         'integer. distinct = distinct pick sequences.',
    min_evaluations=dict(quick=500000, thorough=10000000),
    required_classes=['class:integer-boundary', 'class:mantissa-x-exp10', 'class:halfway', 'class:long-mantissa', 'class:zero',
                      'class:range-boundary', 'halfway:exact', 'halfway:truncated+1ulp:subnormal',
                      'halfway:padded-tail+:digits799-801', 'halfway:padded-tail-:digits799-801', 'entry:ParseSchema', 'entry:ParseOnDemand'],
    assumptions=['an error confined to the low 64-bit word of a power-of-ten table row affects ~2^-64 of inputs and is outside '
                 'practical reach of search (DESIGN.md section 8)'],
)

c07 = B('c07_ftoa', 'c07_ftoa.cpp', 'asan')
c07p = B('c07_ftoa', 'c07_ftoa.cpp', 'prod', defines=['-DVF_CANARY'])
PROPS['C07'] = dict(
    title='Finite doubles print as the shortest decimal that reads back to the same double',
    units=[
        U(c07, 'prng', 250000, 8000000, wq=4, wt=8, label='c07-asan'),
        U(c07p, 'prng', 900000, 40000000, wq=4, wt=8, label='c07-prod'),
        U(c07, 'rc', 5000, 100000, wq=1, wt=2, label='c07-rc'),
        U(c07p, 'prng', 300000, 10000000, wq=2, wt=3, label='c07-daz-ftz', args=['--daz']),
    ],
    rule='cases: finite doubles from strata - every biased exponent 0..2046 in rotation with random and boundary significands '
         '(0 = irregular power of two, 1, 2^52-1, 2^51...), subnormals by leading bit, integer-valued doubles and powers of ten, '
         'single-precision values, values at the fixed/scientific format switches, short decimals at every decimal exponent, '
         'uniformly random bit patterns; both signs. Oracle: glibc strtod(out) has the same bits; out is a JSON number with a '
         'fraction or exponent; length <= 32 and no write outside a 33-byte block (ASan heap block / canary); no decimal with '
         'one digit fewer reads back (nearest candidate and both neighbours, via glibc %.*e); out is the closest candidate of '
         'its length that reads back (exact expansion consulted for ties and irregular intervals); Document::Parse(out) gives '
         'the same bits; 1 case in 60 prints four doubles on four fresh threads at once (1200 repetitions each; thread 0 starts with the double '
         'under test as the first value it ever prints; output must be what the main thread got); one unit calls the printing routine with MXCSR.DAZ|FTZ set (its output must not depend on the caller\'s '
         'floating-point environment); for a sample (a quarter of the 24/25-byte spellings, 1/64 of the rest) the double is serialised at the end of '
         'a document with every amount of space 18..48 bytes left in a 96-byte write buffer (ASan: first byte beyond the block). '
         'Non-trivial: not an integer below 2^53.',
    min_evaluations=dict(quick=500000, thorough=10000000),
    required_classes=['class:exp-rotation:boundary-sig', 'class:subnormal', 'class:integer-valued', 'class:float-value',
                      'class:format-switch', 'spelling>=24-bytes', 'write-buffer-edge-sweep', 'four-threads'],
    assumptions=['an error confined to the low word of one 128-bit table entry is outside practical reach (DESIGN.md section 8)'],
)

c08 = B('c08_itoa', 'c08_itoa.cpp', 'asan')
c08p = B('c08_itoa', 'c08_itoa.cpp', 'prod', defines=['-DVF_CANARY'])
PROPS['C08'] = dict(
    title='64-bit integers print as their exact decimal representation',
    units=[
        U(c08, 'prng', 382, 382, wq=4, wt=4, label='c08-kernels-asan', args=['--kernels'], sharded=True, cap_s=dict(quick=150, thorough=900)),
        U(c08p, 'prng', 382, 382, wq=4, wt=4, label='c08-kernels-prod', args=['--kernels'], sharded=True, cap_s=dict(quick=150, thorough=900)),
        U(c08, 'prng', 300000, 20000000, wq=2, wt=4, label='c08-compose-asan'),
        U(c08p, 'prng', 1000000, 100000000, wq=2, wt=4, label='c08-compose-prod'),
        U(c08, 'rc', 5000, 100000, wq=1, wt=2, label='c08-rc'),
    ],
    rule='(a) complete enumeration of the two 8-digit kernels: Utoa_8(v) and Utoa_1_8(v) for ALL v < 10^8 (1526 blocks of 65536 '
         'values, sharded over 4 workers, in both the sanitizer and the production build - exhaustive for that sub-domain in '
         'every run) plus Utoa_16 on 64 (hi,lo) pairs per block; (b) composition U64toa/I64toa on 10^k-1,10^k,10^k+1, 2^k-1,2^k,'
         '2^k+1, UINT64_MAX, INT64_MIN/MAX, every digit count 1..20, 8-digit groups equal to 0/1/99999999, random values, as '
         'signed and unsigned, directly and through Serialize+Parse (half of these on a node that held a negative / positive / '
         'large unsigned integer, a double, a string, null or an array before); (c) 1 case in 24: documents holding 1..300 integers (flat '
         'array, arrays nested 1..6 deep, object values, [int,"text"] pairs; full-width / small / mixed magnitudes) serialised '
         'into write buffers of capacity 0..1024, fresh or reused, so that buffer growth steps land on integers; a tenth of these also with four threads serialising '
         'documents of their own at the same time. Oracle: snprintf; length and 33-byte write bound (ASan '
         'heap block / canary); parse-back keeps kind and value. Non-trivial: >= 9 digits or negative. evaluations counts the '
         'kernel evaluations as oracle sub-evaluations.',
    min_evaluations=dict(quick=50000000, thorough=200000000),
    required_classes=['kernel-block', 'class:pow10-boundary', 'class:pow2-boundary', 'class:digit-count', 'class:group-pattern',
                      'signed', 'unsigned', 'class:container', 'container:outgrows-initial-buffer', 'write-buffer-edge-sweep', 'node-held-another-value-before'],
)

c09 = B('c09_quote', 'c09_quote.cpp', 'asan')
c09p = B('c09_quote', 'c09_quote.cpp', 'prod')
c09w = B('c09_quote', 'c09_quote.cpp', 'wsm')
PROPS['C09'] = dict(
    title='String quoting is exact for all bytes and never strays outside its buffers',
    units=[
        U(c09p, 'prng', 700000, 40000000, wq=4, wt=8, label='c09-prod'),
        U(c09, 'prng', 250000, 10000000, wq=3, wt=4, label='c09-asan'),
        U(c09w, 'prng', 400000, 10000000, wq=2, wt=2, label='c09-westmere'),
        U(B('c09_quote', 'c09_quote.cpp', 'wasan'), 'prng', 200000, 6000000, wq=2, wt=3, label='c09-sse-asan'),
        U(B('c09_quote', 'c09_quote.cpp', 'dyn'), 'prng', 300000, 8000000, wq=2, wt=2, label='c09-dynamic'),
        U(B('c09_quote', 'c09_quote.cpp', 'dynasan'), 'prng', 150000, 4000000, wq=2, wt=2, label='c09-dynamic-asan'),
        U(c09, 'rc', 4000, 100000, wq=1, wt=2, label='c09-rc'),
        U(B('c17_threads', 'c17_threads.cpp', 'wtsan'), 'prng', 300, 12000, wq=2, wt=3, label='c09-tsan-sse-borrowed-strings', args=['--scenario', '3'],
          replay_reps=20, replay_timeout=120, cap_s=dict(quick=40, thorough=600)),
        U(B('c17_threads', 'c17_threads.cpp', 'gtsan'), 'prng', 300, 12000, wq=2, wt=3, label='c09-tsan-gcc-borrowed-strings', args=['--scenario', '3'],
          replay_reps=20, replay_timeout=120, cap_s=dict(quick=40, thorough=600)),
    ],
    rule='cases: byte strings of length 0..200 (+500, 1000), every length around the 16/32-byte block sizes; contents: one '
         'arbitrary byte at one offset 0..69 of a plain string, dense/sparse mixes of quote, backslash, control and high bytes, '
         'all-escape strings (6x worst case), uniformly random bytes; source placement: heap block of exact size, ending on the '
         'last byte before a PROT_NONE page, inside a page with 1..4095 bytes after it, starting right after a PROT_NONE page; '
         'destination: exactly 6*len+32+3 bytes ending at a PROT_NONE page; production (g++ -O2, haswell and westmere) and '
         'sanitizer builds; plus, under ThreadSanitizer (harness c17_threads, scenario D), threads serialising documents whose '
         'strings borrow bytes that lie directly in front of memory other threads write. Oracle: scalar matcher from the statement (verbatim bytes, escapes decode to the byte, quotes '
         'around), emitted length <= 6*len+2, no fault (in the runtime-dispatch builds the SSE clone and the AVX2 clone are also '
         'called directly, since the resolver would only ever pick one of them on this host), output unchanged when the bytes after the string are replaced by '
         'quotes/backslashes/control bytes, Serialize of a string node gives the same bytes, and so does (1 case in 4) Serialize of the '
         'string behind 0..40 numbers into a write buffer of capacity 0..1024 (reservation made on a partly filled buffer). Non-trivial: >= 1 escaped byte, '
         'or len%32 != 0 with the source within 64 bytes of a page end.',
    min_evaluations=dict(quick=500000, thorough=10000000),
    required_classes=['place:page-end', 'place:heap-exact', 'place:in-page', 'place:page-start', 'class:all-escapes', 'class:single-byte', 'behind-numbers-in-a-partly-filled-write-buffer'],
)

c14 = B('c14_memcmp', 'c14_memcmp.cpp', 'asan')
c14p = B('c14_memcmp', 'c14_memcmp.cpp', 'prod')
c14w = B('c14_memcmp', 'c14_memcmp.cpp', 'wsm')
c14d = B('c14_memcmp', 'c14_memcmp.cpp', 'dyn')
PROPS['C14'] = dict(
    title='Member lookup compares keys by exact bytes for every length and address',
    units=[
        U(c14p, 'prng', 600000, 40000000, wq=4, wt=8, label='c14-prod'),
        U(c14, 'prng', 200000, 8000000, wq=3, wt=4, label='c14-asan'),
        U(c14w, 'prng', 300000, 8000000, wq=2, wt=2, label='c14-westmere'),
        U(B('c14_memcmp', 'c14_memcmp.cpp', 'wasan'), 'prng', 150000, 4000000, wq=2, wt=2, label='c14-sse-asan'),
        U(c14d, 'prng', 300000, 8000000, wq=2, wt=2, label='c14-dynamic'),
        U(c14, 'rc', 4000, 100000, wq=1, wt=2, label='c14-rc'),
    ],
    rule='cases: pairs of equal-length byte ranges; the (length 0..130) x (first mismatch position | none) grid of 8646 cells is '
         'enumerated by case index (every cell, many times per run; cells covered reported), plus lengths 131..4000; mismatching '
         'byte pairs cover the sign cases (00/01, 7f/80, ff/00, ...); both operands placed independently: heap block of exact '
         'size, ending 0..40 bytes before a PROT_NONE page, at any offset inside a page; a quarter of the cases go through the '
         'API (object built with such keys, probe key placed at a page end, FindMember by view and by pointer+length, HasMember, '
         'with and without CreateMap, pool and freeing allocators; a third of these also with probes that alias a stored name: same '
         'start address as a member name but another length, and borrowed keys that are slices of one buffer). Builds: production haswell (in-page 32-byte fast path live), '
         'sanitizer, static westmere, dynamic dispatch. Oracle: memcmp (equality and sign), model lookup (first match without a '
         'map), no fault. Non-trivial: len >= 1 with a mismatch or an operand within 32 bytes of a page end.',
    min_evaluations=dict(quick=500000, thorough=10000000),
    required_classes=['level:kernel', 'level:api', 'api:map', 'api:linear', 'placeA:page-end', 'mismatch', 'equal', 'api:aliasing-probes'],
)

c10 = B('c10_ondemand', 'c10_ondemand.cpp', 'asan')
c10p = B('c10_ondemand', 'c10_ondemand.cpp', 'prod')
fz10 = B('fz_ondemand', 'c10_ondemand.cpp', 'fuzz')
PROPS['C10'] = dict(
    title='On-demand lookup returns exactly what full parsing plus pointer lookup returns',
    units=[
        U(c10, 'prng', 25000, 1500000, wq=5, wt=8, label='c10-asan'),
        U(c10p, 'prng', 60000, 4000000, wq=3, wt=4, label='c10-prod'),
        U(B('c10_ondemand', 'c10_ondemand.cpp', 'wasan'), 'prng', 12000, 800000, wq=2, wt=3, label='c10-sse-asan'),
        U(B('c10_ondemand', 'c10_ondemand.cpp', 'dynasan'), 'prng', 12000, 800000, wq=2, wt=3, label='c10-dynamic-asan'),
        U(c10, 'rc', 2000, 50000, wq=2, wt=2, label='c10-rc'),
        F(fz10, 15, 600, wq=2, wt=2, label='fz_ondemand', field='raw', dict='fuzz/json.dict', seeds='fuzz/seeds/ondemand'),
    ],
    harness_alias={'fz_ondemand': 'c10_ondemand'},
    rule='cases: (valid text, path). Texts: generated values (empty containers in every position, duplicate keys, keys needing '
         'escapes, keys/strings containing []{}",:\\, depth <= 7) rendered with random layouts (whitespace runs > 64, pad '
         '0..130, escaped spellings of keys; 1 text in 30 with a sibling value holding 100..700 small containers). Paths (4 per text): existing paths, and wrong continuations of prefixes of '
         'existing paths: absent key, prefix/extension of a key, key of another object, index == size / size+1 / size+1000 / '
         'INT_MAX / -1 / INT_MIN, index into object, key into array, any step into an empty container, steps below a scalar, '
         'a key equal to the raw (still escaped) spelling of a member name. '
         'Oracle: refjson.resolve on the generating value (first match); hit => kErrorNone, slice inside the input, '
         'refjson.parse(slice) == resolved value, ParseOnDemand yields it (fresh document, and a document that parsed the text / ran '
         'ParseOnDemand / failed a parse before); miss => error, empty slice, ParseOnDemand has a parse '
         'error and a null document; DOM Parse+AtPointer agrees. Buffers: exact-size heap block (ASan) / page-end and '
         'page-start guard pages. evaluations counts (text,path) pairs as oracle sub-evaluations. Non-trivial: non-empty path.',
    min_evaluations=dict(quick=100000, thorough=2000000),
    required_classes=['hit:existing', 'miss:absent-key', 'miss:index==size', 'miss:index-into-empty-array', 'miss:index==-1',
                      'miss:key-into-empty-object', 'miss:index-below-scalar', 'path-with-escaped-key', 'miss:key-of-another-object',
                      'miss:raw-spelling-of-escaped-key', 'sibling-with-hundreds-of-containers'],
)

c11 = B('c11_ondemand_raw', 'c10_ondemand.cpp', 'asan', defines=['-DVF_C11'])
c11p = B('c11_ondemand_raw', 'c10_ondemand.cpp', 'prod', defines=['-DVF_C11'])
fz11 = B('fz_ondemand_raw', 'c10_ondemand.cpp', 'fuzz', defines=['-DVF_C11'])
PROPS['C11'] = dict(
    title='On-demand scanning of arbitrary unpadded input stays inside the input',
    units=[
        U(c11, 'prng', 50000, 3000000, wq=4, wt=8, label='c11-asan'),
        U(c11p, 'prng', 200000, 10000000, wq=3, wt=4, label='c11-prod'),
        U(B('c11_ondemand_raw', 'c10_ondemand.cpp', 'wasan', defines=['-DVF_C11']), 'prng', 25000, 1500000, wq=2, wt=3, label='c11-sse-asan'),
        U(B('c11_ondemand_raw', 'c10_ondemand.cpp', 'dyn', defines=['-DVF_C11']), 'prng', 100000, 5000000, wq=2, wt=3, label='c11-dynamic'),
        U(B('c11_ondemand_raw', 'c10_ondemand.cpp', 'dynasan', defines=['-DVF_C11']), 'prng', 25000, 1500000, wq=2, wt=3, label='c11-dynamic-asan'),
        U(c11, 'rc', 3000, 50000, wq=1, wt=2, label='c11-rc'),
        F(fz11, 20, 900, wq=4, wt=6, label='fz_ondemand_raw', field='raw', dict='fuzz/json.dict', seeds='fuzz/seeds/ondemand'),
    ],
    harness_alias={'fz_ondemand_raw': 'c11_ondemand_raw'},
    rule='cases: (byte string, path, buffer placement). Byte strings: valid texts, truncations (and every prefix of small texts), '
         'single-fault mutants, lengths 0,1,2,15-17,31-33,63-67,127-130, nesting stress, texts that end inside a selected scalar of '
         '17..200 characters (number, real, string), libFuzzer bytes (path decoded from the '
         'first bytes). Paths: existing / wrong continuations of the original value, and random key/index sequences incl. '
         'negative indices and keys spelled with escapes. Placement: heap block of exactly len bytes (ASan redzones, also '
         'len==0), text ending on the last byte before a PROT_NONE page, text starting right after a PROT_NONE page (production '
         'build; the bytes after the text are hostile: quotes, closers and commas, a valid-looking continuation, backslashes, digits). Oracle: no sanitizer report / fault; success => slice within [data,data+len) and '
         'offset <= len; error => empty slice, code in range; ParseOnDemand returns coherently. Nothing is asserted about which '
         'outcome a malformed text gets. Non-trivial: len >= 1 and a non-empty path.',
    min_evaluations=dict(quick=200000, thorough=3000000),
    required_classes=['input:truncated', 'input:valid', 'place:heap-exact', 'place:page-end', 'place:page-start', 'all-prefixes',
                      'input:block-length', 'input:ends-in-long-scalar'],
)

c06 = B('c06_serialize', 'c06_serialize.cpp', 'asan')
c06p = B('c06_serialize', 'c06_serialize.cpp', 'prod')
fz06 = B('fz_roundtrip', 'c06_serialize.cpp', 'fuzz')
PROPS['C06'] = dict(
    title='Serialize output is valid JSON that parses back to an equal document',
    units=[
        U(c06, 'prng', 20000, 1200000, wq=5, wt=8, label='c06-asan'),
        U(c06p, 'prng', 50000, 3000000, wq=2, wt=4, label='c06-prod'),
        U(B('c06_serialize', 'c06_serialize.cpp', 'wasan'), 'prng', 8000, 500000, wq=2, wt=3, label='c06-sse-asan'),
        U(c06, 'rc', 1500, 40000, wq=2, wt=2, label='c06-rc'),
        F(fz06, 15, 600, wq=2, wt=2, label='fz_roundtrip', field='text', dict='fuzz/json.dict', seeds='fuzz/seeds/json'),
    ],
    harness_alias={'fz_roundtrip': 'c06_serialize'},
    rule='cases: (document, write-buffer state). Documents: generated values (1..150 nodes, depth <= 8; 1 in 20 under 9..70 more levels '
         'of one-child containers, empty containers anywhere, '
         'single scalar roots, duplicate keys, strings of arbitrary bytes incl. NUL/0x7f/>=0x80, boundary integers, every double '
         'class) built by parsing a rendered text or through the mutation API (copied or borrowed strings; borrowed strings and '
         'keys also packed against the end of a mapped page followed by a PROT_NONE page), pool and freeing '
         'allocators; 1/12 of the cases plant +-inf or a NaN (with payload) at a random node. Write buffers: fresh, capacity '
         '0/1/2/7/8/63/64/255/256/4096, reused after a smaller/larger document, moved-from-and-reassigned, and a used buffer whose contents were moved away (by '
         'move-assignment / move-construction) before it is used again. Oracle: Serialize == '
         'kErrorNone; refjson accepts the output and parses it to the generating value (kinds, bits, order, duplicates); '
         'Dump()==output, Size()==strlen, NUL terminator; library parse-back equals (walk and ==); re-serialisation and a second '
         'serialisation into the same buffer are byte-identical; last child sub-node Dump() correct; non-finite => '
         'kSerErrorInfinity and Dump()==""; 1 case in 24: one scalar at the end of a document with every amount of space 1..94 '
         'left in a 96-byte write buffer. Non-trivial: depth >= 2, or an escape in the output, or long output, or a non-fresh buffer.',
    min_evaluations=dict(quick=50000, thorough=1500000),
    required_classes=['built:parse', 'built:mutation-api', 'alloc:freeing', 'alloc:pool', 'non-finite', 'wb:reused', 'wb:capacity/0',
                      'wb:capacity/1', 'wb:moved/0', 'wb:moved-from(assign)', 'wb:moved-from(construct)', 'depth>=17(one-child wrappers)', 'strings:borrowed-at-page-end', 'write-buffer-edge-sweep'],
)

c12 = B('c12_mutation', 'c12_mutation.cpp', 'asan')
PROPS['C12'] = dict(
    title='The mutation API behaves like plain ordered containers',
    units=[
        U(c12, 'rc', 1200, 60000, wq=6, wt=8, label='c12-rc'),
        U(c12, 'prng', 5000, 400000, wq=8, wt=8, label='c12-prng'),
        U(B('c12_mutation', 'c12_mutation.cpp', 'prod'), 'prng', 8000, 500000, wq=2, wt=4, label='c12-prod'),
        F(B('fz_c12_ops', 'c12_mutation.cpp', 'fuzz'), 15, 600, wq=2, wt=3, label='fz_c12_ops', max_len=2048),
    ],
    rule='cases: operation sequences (1..210 steps, generated and shrunk as one value) over 3 documents, pool or freeing '
         'allocator: Set null/bool/int64/uint64/double/string(copied|constant)/array/object on any node, AddMember (copyKey '
         'on/off, keys from a pool that includes near-collision families - equal length 13..97, one differing byte inside / between '
         'the comparison kernels\' vector blocks - and a family of borrowed keys that are slices of one buffer, duplicate keys only while no map may exist, bursts across the 16->24->36 capacity steps), RemoveMember '
         '(first/last/random/absent), EraseMember (empty/single/prefix/suffix/full), MemberReserve, CreateMap, DestroyMap, '
         'PushBack (bursts), PopBack, Erase (iterator / iterator range / index range), Reserve, Clear, child assignment, '
         'CopyFrom (same/other document, copyString on/off, disjoint source), move-assign (from a disjoint node, from an own '
         'descendant), Swap. Oracle: model (array = vector, object = vector of pairs, RemoveMember moves the last pair into '
         'the hole) compared after EVERY step through the accessor walk; Size/Empty/Capacity>=Size/Back/operator[]/FindMember '
         '(view and pointer+length; first match when no map)/HasMember/absent key -> null node/AtPointer/iterators/returned '
         'iterators; Dump denotes the model; a quarter of the sequences run with CreateMap disabled (map transparency: both '
         'variants must match the same model). Non-trivial: sequence contains a map interleaving, a growth step, a move or a copy.',
    min_evaluations=dict(quick=8000, thorough=200000),
    required_classes=['event:remove-tail-with-map', 'event:erase-full-range', 'event:growth-from-0', 'event:move-from-own-descendant',
                      'event:member-growth-across-capacity', 'event:array-growth-across-capacity', 'event:erase-members-with-map',
                      'event:copy-same-doc', 'alloc:pool', 'alloc:freeing', 'maps:off(transparency run)', 'event:borrowed-key-slice-of-shared-buffer'],
    technique='stateful model-based property testing (rapidcheck-shrunk operation sequences + seeded PRNG) against an executable container model',
)

c13 = B('c13_ownership', 'c12_mutation.cpp', 'asan', defines=['-DVF_C13'])
PROPS['C13'] = dict(
    title='Every allocation is released exactly once and copies are independent',
    units=[
        U(c13, 'rc', 1200, 60000, wq=6, wt=8, label='c13-rc'),
        U(c13, 'prng', 5000, 400000, wq=8, wt=8, label='c13-prng', asan_options=FILL % 0x0c),
        U(B('c13_ownership_pool', 'c12_mutation.cpp', 'asan', defines=['-DVF_C13', '-DVF_C13_POOL'], harness='c13_ownership'), 'prng', 4000, 300000, wq=3, wt=4,
          label='c13-pool-documents'),
        F(B('fz_c13_ops', 'c12_mutation.cpp', 'fuzz', defines=['-DVF_C13']), 15, 600, wq=2, wt=3, label='fz_c13_ops', max_len=2048),
    ],
    rule='cases: the C12 operation language on documents using a tracking allocator (kNeedFree, every Realloc moves, freed blocks '
         'poisoned), extended with document operations (1 step in 5): move-construct, move-assign, Swap, Parse of valid and '
         'mutated texts, ParseOnDemand (hit and miss), ParseSchema of valid and invalid texts, destroy-and-recreate; one unit runs the same language on pool documents of which '
         'every other one is bound to a pool the caller owns (ASan watches the chunks). Oracle: '
         'ledger after every step (no free of a block the allocator does not own = foreign/double free), model comparison after '
         'every step (a stale or shared block shows as a wrong value: copies are mutated/destroyed independently), nothing live '
         'in the ledger after the last owner is destroyed, ASan (use after free) and LSan (parser stacks) silent. Non-trivial: '
         'sequence contains a failed parse, a ParseSchema, a map interleaving, a move or a copy.',
    min_evaluations=dict(quick=8000, thorough=200000),
    required_classes=['event:failed-parse-with-open-container', 'event:parse-schema-replacing-owned', 'event:parse-schema-invalid',
                      'event:remove-tail-with-map', 'event:move-from-own-descendant', 'event:copy-other-doc', 'event:destroy-doc',
                      'event:parse-on-demand'],
    technique='stateful model-based property testing against a tracking-allocator ledger and a container model',
)

c19 = B('c19_schema', 'c19_schema.cpp', 'asan')
PROPS['C19'] = dict(
    title='ParseSchema updates exactly the members the existing document declares',
    units=[
        U(c19, 'rc', 2500, 80000, wq=4, wt=6, label='c19-rc'),
        U(c19, 'prng', 30000, 2000000, wq=8, wt=10, label='c19-prng', asan_options=FILL % 0x0c),
        F(B('fz_c19_pairs', 'c19_schema.cpp', 'fuzz'), 15, 600, wq=2, wt=3, label='fz_c19_pairs', max_len=2048),
    ],
    rule='cases: (existing value E, 1..3 valid texts T applied in sequence), duplicate-free, keys from a shared pool of 10 so that '
         'declared / undeclared / omitted keys occur at every level; all 8x8 kind combinations (null, bool, number, string, '
         'array, object, empty array, empty object) at the root and at matched keys, depth <= 6, arrays containing objects '
         'whose keys collide with the existing keys; E built by Parse or through the mutation API; pool, freeing and tracking '
         'allocators; texts with random layouts. Oracle: merge_schema() transcribed from the statement (E non-empty object met '
         'by {}: unchanged or {} both accepted), compared through the accessor walk in order; no parse error; the document '
         'serialises to its own value, deep-copies equal, accepts one more child in every container (reads back as value + those '
         'children) and destroys cleanly (ASan, ledger: no foreign/double free, nothing '
         'live afterwards). evaluations counts every application. Non-trivial: both sides non-empty objects, or an array '
         'arriving at an object.',
    min_evaluations=dict(quick=50000, thorough=1500000),
    required_classes=['root:obj<-obj', 'root:obj<-arr', 'root:empty-obj<-arr', 'key:obj<-arr', 'key:obj<-obj', 'key:str<-obj',
                      'key:arr<-obj', 'array-with-object-into-object-node', 'repeated-application', 'alloc:tracking',
                      'underspecified({} into non-empty object)'],
    technique='model-based differential property testing (rapidcheck + seeded PRNG) against a merge model transcribed from the statement',
)

c20 = B('c20_lazy', 'c20_lazy.cpp', 'asan')
fz20 = B('fz_lazy', 'c20_lazy.cpp', 'fuzz')
PROPS['C20'] = dict(
    title='UpdateLazy is a faithful recursive object merge',
    units=[
        U(c20, 'rc', 3000, 80000, wq=3, wt=4, label='c20-rc'),
        U(c20, 'prng', 45000, 3000000, wq=6, wt=10, label='c20-prng'),
        U(B('c20_lazy', 'c20_lazy.cpp', 'wasan'), 'prng', 25000, 1200000, wq=2, wt=3, label='c20-sse-asan'),
        U(B('c20_lazy', 'c20_lazy.cpp', 'prod'), 'prng', 60000, 3000000, wq=3, wt=4, label='c20-prod'),
        F(fz20, 15, 600, wq=2, wt=2, label='fz_lazy', field='raw', dict='fuzz/json.dict', seeds='fuzz/seeds/lazy'),
    ],
    harness_alias={'fz_lazy': 'c20_lazy'},
    rule='cases: pairs (target text, source text) rendered from duplicate-free generated values: every kind combination at the '
         'root (scalar/array/object/empty object), nested objects up to depth 6, objects of 0..40 members, keys from a shared '
         'pool incl. the empty key and keys needing escapes on output (quote, backslash, tab, newline, 0x01, UTF-8), the source '
         'made to share about half of the target keys at each level; 1 case in 25 with a member value holding 100..700 small '
         'containers of its own kind (counts around 255/256/512 dense); the two sides rendered independently with random layouts '
         'and random escaped/unescaped key spellings; plus libFuzzer (target NUL source). Oracle: merge_lazy() transcribed from '
         'the statement on decoded keys; refjson accepts the result and parses it to the model (as key->value maps and in '
         'target-order-then-appended order); no duplicate keys appear; 1 case in 120 repeats four merges on four threads at once '
         '(results must equal the single-threaded ones). Non-trivial: a common key at the root or an escape in '
         'either text.',
    min_evaluations=dict(quick=100000, thorough=2000000),
    required_classes=['common-key', 'root:obj<-obj', 'root:empty-obj<-obj', 'root:obj<-empty-obj', 'root:obj<-scalar', 'root:scalar<-obj',
                      'escape-on-one-side-only', 'large-target-object', 'value-with-hundreds-of-containers', 'four-threads'],
    technique='model-based differential property testing (rapidcheck + seeded PRNG + libFuzzer) against a merge model transcribed from the statement',
)

c18 = B('c18_equality', 'c18_equality.cpp', 'asan')
PROPS['C18'] = dict(
    title='Document equality is JSON value equality',
    units=[
        U(c18, 'rc', 3000, 80000, wq=3, wt=4, label='c18-rc'),
        U(c18, 'prng', 50000, 3000000, wq=6, wt=10, label='c18-prng'),
        U(B('c18_equality', 'c18_equality.cpp', 'prod'), 'prng', 60000, 3000000, wq=3, wt=4, label='c18-prod'),
        F(B('fz_c18_pairs', 'c18_equality.cpp', 'fuzz'), 15, 600, wq=2, wt=3, label='fz_c18_pairs', max_len=2048),
    ],
    rule='cases: a duplicate-free value v, a partner w that is v or v with exactly one change (leaf value / bit, 1 vs 1.0, sign, '
         '0.0 vs -0.0, number vs its digits as a string, string longer/shorter/one byte, null/false/true, [] vs {}, array '
         'element added/removed/two different elements swapped, member dropped/added, key renamed to same length/longer/prefix), '
         'two (three) construction histories out of 12: parse compact, parse with heavy whitespace, mutation-API build, build '
         'with members permuted at every level, CopyFrom (source destroyed), parse of Dump, nodes that previously held another '
         'kind (incl. nulls left behind by moving a value away), extra capacity (Reserve + add/remove), lookup maps on every object, lookup maps created before the members are added (keys passed through a scratch buffer '
         'that is overwritten afterwards), the same with a member <key>_ added and removed again in the slot of the last member, borrowed constant strings; pool and freeing '
         'allocators incl. cross-type comparison; sanitizer build and production build (g++ -O2: the in-page fast paths of the key '
         'comparison are live only there). Oracle: (a==b) == model equality (objects as maps, numbers by kind and bits); '
         'b==a agrees; != is the negation; a==a; deep copy and parse of the serialised text are equal; transitivity on an '
         'equal-by-construction triple. Non-trivial: a container with >= 2 children.',
    min_evaluations=dict(quick=100000, thorough=2000000),
    required_classes=['equal-pair', 'unequal-pair', 'alloc:cross-type', 'hist:build-permuted', 'hist:with-map', 'hist:prior-kind',
                      'hist:const-strings', 'hist:extra-capacity', 'hist:copy', 'hist:map-first', 'hist:map-churn'],
)

c16 = B('c16_pool', 'c16_pool.cpp', 'asan')
PROPS['C16'] = dict(
    title='The pool allocator hands out aligned, disjoint, stable blocks',
    units=[
        U(c16, 'rc', 1500, 60000, wq=4, wt=6, label='c16-rc', asan_options='detect_leaks=0'),
        U(c16, 'prng', 12000, 800000, wq=8, wt=10, label='c16-prng', asan_options='detect_leaks=0'),
        U(B('c16_pool_locked', 'c16_pool.cpp', 'asan', defines=['-DSONIC_LOCKED_ALLOCATOR'], harness='c16_pool'), 'prng', 6000, 400000, wq=2, wt=3,
          label='c16-locked-build', asan_options='detect_leaks=0', args=['--case-timeout', '30'], replay_timeout=120),
        F(B('fz_c16_ops', 'c16_pool.cpp', 'fuzz'), 15, 600, wq=2, wt=3, label='fz_c16_ops', max_len=2048, asan_options='detect_leaks=0'),
    ],
    rule='cases: operation sequences (1..320 steps, generated and shrunk as one value) over up to 3 allocator handles: create pool '
         '(chunk capacity 64/256/1024/65536, simple or adaptive chunk policy, own or caller-supplied base allocator, optional '
         'user buffer: 64..4096 bytes, aligned or misaligned; one unit built with -DSONIC_LOCKED_ALLOCATOR and a 30 s per-case '
         'watchdog - a single-threaded pool operation that takes its own lock twice never returns), Malloc, Realloc (null pointer, last / not last / older block, '
         'shrink, same, grow, to 0), Clear, copy-construct, copy-assign (also self and onto a moved-from handle), '
         'move-construct, move-assign, destroy; sizes from {0, 1..48, 1/7/8/9/15/16/17, cap-8/cap-1/cap/cap+1/2cap/cap/2, '
         'remaining-8/remaining-1/remaining/remaining+1 of the current chunk, random up to 200 KiB}; one Malloc in 12 and one '
         'Realloc in 8 meets a base allocator that refuses its next request (a null result is then legitimate and must change '
         'nothing). Oracle (model = live blocks '
         'per pool + chunks recorded by a tracking base allocator): non-null results 8-aligned, wholly inside one chunk past '
         'its header (or the user buffer), disjoint from every live block; every live block carries a byte pattern re-verified '
         'after EVERY step; Realloc keeps the first min(old,new) bytes, returns the same pointer when the new size fits, grows '
         'in place exactly when the block is the most recent allocation and the increment fits its chunk; zero-size requests '
         'return null; Size() == model sum of aligned hand-outs since the last Clear (through every copy), Size()<=Capacity(), '
         'Capacity() bounded by live blocks and by what was supplied; Shared(); chunks are returned exactly when the last copy '
         'dies; the user buffer is never freed. Non-trivial: a chunk overflow, an in-place or cross-chunk realloc of the last '
         'block, or >= 2 copies.',
    min_evaluations=dict(quick=30000, thorough=500000),
    required_classes=['event:chunk-overflow', 'event:realloc-in-place', 'event:realloc-last-across-chunk', 'event:realloc-not-last',
                      'event:clear', 'event:copy-construct', 'event:copy-assign', 'event:move-assign', 'event:last-copy-destroyed',
                      'event:user-buffer', 'event:user-buffer-misaligned', 'policy:simple', 'policy:adaptive', 'event:base-refusal-in-realloc'],
    technique='stateful model-based property testing (rapidcheck + seeded PRNG operation sequences) against a block/chunk ledger',
    assumptions=['leak detection is off for this harness: a pool copied before its first chunk allocation (user buffer, no base allocator) '
                 'leaks its 1-byte owned base-allocator object - outside the statement of C16 (see DESIGN.md section 5)'],
)

c17 = B('c17_threads', 'c17_threads.cpp', 'tsan')
c17l = B('c17_threads_locked', 'c17_threads.cpp', 'tsan', defines=['-DSONIC_LOCKED_ALLOCATOR'])
PROPS['C17'] = dict(
    title='Independent documents and shared read-only documents are free of data races',
    units=[
        U(c17, 'prng', 500, 20000, wq=3, wt=6, label='c17-tsan', replay_reps=20, replay_timeout=120, cap_s=dict(quick=45, thorough=900)),
        U(c17, 'rc', 200, 5000, wq=1, wt=2, label='c17-tsan-rc', replay_reps=20, replay_timeout=120, cap_s=dict(quick=45, thorough=900)),
        U(c17l, 'prng', 300, 10000, wq=3, wt=6, label='c17-tsan-locked', replay_reps=20, replay_timeout=200, cap_s=dict(quick=45, thorough=900), args=['--case-timeout', '60']),
        U(B('c17_threads_locked_adaptive', 'c17_threads.cpp', 'tsan', defines=['-DSONIC_LOCKED_ALLOCATOR', '-DSONIC_ADAPTIVE_MEMORYPOOL'], harness='c17_threads_locked'), 'prng', 300, 10000, wq=2, wt=4,
          label='c17-tsan-locked-adaptive', replay_reps=20, replay_timeout=200, cap_s=dict(quick=45, thorough=900), args=['--case-timeout', '60']),
        U(B('c17_threads_locked_nopause', 'c17_threads.cpp', 'tsan', defines=['-DSONIC_LOCKED_ALLOCATOR', '-DSONIC_SPINLOCK_NO_PAUSE'], harness='c17_threads_locked'), 'prng', 300, 10000, wq=2, wt=4,
          label='c17-tsan-locked-nopause', replay_reps=20, replay_timeout=200, cap_s=dict(quick=45, thorough=900), args=['--case-timeout', '60']),
        U(B('c17_threads', 'c17_threads.cpp', 'wtsan'), 'prng', 300, 12000, wq=2, wt=4, label='c17-tsan-sse', replay_reps=20, replay_timeout=120, cap_s=dict(quick=45, thorough=900)),
        U(B('c17_threads', 'c17_threads.cpp', 'gtsan'), 'prng', 300, 12000, wq=2, wt=4, label='c17-tsan-gcc', replay_reps=20, replay_timeout=120, cap_s=dict(quick=45, thorough=900)),
    ],
    rule='cases: thread scripts for 2..8 threads, generated on the main thread and then executed 4x behind a start barrier under '
         'ThreadSanitizer. (A) every thread owns its documents: Parse of valid and mutated texts (pool and freeing allocator), '
         'Serialize, CreateMap, lookups incl. a missing key (also writing through the null node the non-const operator[] returns), GetOnDemand, UpdateLazy, mutation-API build, RemoveMember, PopBack, '
         'CopyFrom, ==; half of the cases give several threads the identical script. (B) one document built before the threads '
         'start (with or without lookup maps, pool or freeing allocator) and then only const operations from all threads: type '
         'tests, getters, iteration, FindMember (view and pointer+length), HasMember, operator[] with existing and MISSING keys, '
         'AtPointer, Dump, Serialize into a thread-local buffer, == against a thread-local copy. (C, second binary built with '
         '-DSONIC_LOCKED_ALLOCATOR, third with -DSONIC_ADAPTIVE_MEMORYPOOL in addition, fourth with -DSONIC_SPINLOCK_NO_PAUSE) all threads Malloc/Realloc from one shared pool and parse on documents bound to it. (D) half of the '
         'threads serialise documents of their own whose strings and keys borrow name bytes of a shared record array while the other '
         'half write the counters that lie directly behind those names. Oracle: '
         'ThreadSanitizer silent (halt_on_error); every thread result equals the single-threaded result of the same script; in '
         '(C) all blocks 8-aligned, pairwise disjoint, patterns intact. evaluations counts thread executions as sub-evaluations.',
    min_evaluations=dict(quick=2000, thorough=50000),
    required_classes=['scenario:own-documents', 'scenario:shared-const-document', 'scenario:shared-locked-pool',
                      'shared:operator[]-missing-key', 'shared:with-map', 'scenario:borrowed-strings-next-to-foreign-writes'],
    technique='generated multi-threaded scripts under ThreadSanitizer (happens-before race detection) with post-join differential against single-threaded results',
    assumptions=['a race on a path no generated script executes is invisible; lock liveness and weak-memory effects beyond TSan are not addressed'],
)

_P = ['-std=gnu++17', '-g']
c15 = B('c15_configs', 'c15_configs.cpp', 'multi', parts=[
    dict(src='c15_part.cpp', flags=_P + ['-O2', '-march=haswell', '-Dsonic_json=sonic_hsw', '-DCFG_FN=digest_hsw']),
    dict(src='c15_part.cpp', flags=_P + ['-O2', '-march=westmere', '-Dsonic_json=sonic_wsm', '-DCFG_FN=digest_wsm']),
    dict(src='c15_part.cpp', flags=_P + ['-O2', '-march=westmere', '-DSONIC_DYNAMIC_DISPATCH', '-Dsonic_json=sonic_dyn', '-DCFG_FN=digest_dyn']),
    dict(src='c15_part.cpp', flags=_P + ['-O1', '-fsanitize=address', '-march=haswell', '-Dsonic_json=sonic_hsw_asan', '-DCFG_FN=digest_hsw_asan']),
    dict(src='c15_part.cpp', flags=_P + ['-O1', '-fsanitize=address', '-march=westmere', '-Dsonic_json=sonic_wsm_asan', '-DCFG_FN=digest_wsm_asan']),
    dict(src='c15_part.cpp', flags=_P + ['-O1', '-fsanitize=address', '-march=westmere', '-DSONIC_DYNAMIC_DISPATCH', '-Dsonic_json=sonic_dyn_asan',
                                        '-DCFG_FN=digest_dyn_asan']),
])
PROPS['C15'] = dict(
    title='All supported x86 build configurations compute identical results',
    units=[
        U(c15, 'prng', 25000, 1500000, wq=8, wt=10, label='c15-prng', asan_options='detect_leaks=0'),
        U(c15, 'rc', 1500, 40000, wq=3, wt=4, label='c15-rc', asan_options='detect_leaks=0'),
        U(B('c15_clones', 'c15_clones.cpp', 'dynasan'), 'prng', 20000, 1200000, wq=2, wt=3, label='c15-clones-asan'),
        U(B('c15_clones', 'c15_clones.cpp', 'dyn'), 'prng', 40000, 2500000, wq=2, wt=3, label='c15-clones-prod'),
    ],
    rule='cases: (text, path, second text). Texts: generated values rendered with random layouts (whitespace runs, pad 0..70, escaped '
         'strings, long keys) and one third of them mutated into invalid texts; paths: existing ones and wrong continuations; '
         'second text: another generated value (occasionally mutated). Six instantiations of the library are linked into one '
         'binary, each compiled in its own namespace with its own flags: {static -march=haswell, static -march=westmere, '
         '-march=westmere -DSONIC_DYNAMIC_DISPATCH} x {g++ -O2 production, g++ -O1 -fsanitize=address}. Oracle: the six digests '
         'are byte-identical: accept/reject with error code and offset (collapsed to one class for the three string-literal '
         'codes, as the property allows), Dump, deep copy + FindMember (view / pointer+length) indices + CreateMap + HasMember + '
         'RemoveMember/Erase + Dump + ==, GetOnDemand error code or slice offset/length, ParseSchema result, UpdateLazy result, Dump of '
         'strings that borrow tails of the text placed against an unmapped page. '
         'Second harness (c15_clones, runtime-dispatch build only): the dispatcher, the SSE clone and the AVX2 clone of every '
         'multi-versioned kernel (SkipString, SkipContainer, skip_space_safe, parseStringInplace, Quote) are called directly at every '
         'quote / bracket / white-space position of valid, mutated, truncated and dense texts and must return the same result, cursor '
         'and bytes (the resolver would only ever select one clone on this host). '
         'Non-trivial: >= 17 bytes with a string or whitespace run crossing a 16-byte boundary. evaluations counts the five '
         'pairwise comparisons per case as sub-evaluations.',
    min_evaluations=dict(quick=100000, thorough=2000000),
    required_classes=['input:valid', 'input:truncate', 'input:replace', 'input:truncated', 'input:dense'],
    technique='differential property testing across six in-process build configurations of the library (rapidcheck + seeded PRNG)',
    assumptions=['the dynamic-dispatch resolver selects AVX2 on this host; the SSE clones of the dispatch build are called directly by the '
                 'second harness, the resolver\'s own choice of the SSE branch cannot be exercised here', 'g++ only: the dynamic-dispatch configuration does not link with clang 14'],
)


def tool_versions():
    out = {}
    for k, cmd in (('clang++', ['clang++', '--version']), ('g++', ['g++', '--version'])):
        try:
            out[k] = subprocess.run(cmd, stdout=subprocess.PIPE, text=True).stdout.splitlines()[0]
        except Exception:
            out[k] = '?'
    out['rapidcheck'] = 'librapidcheck-dev (system)'
    return out


def selftest(root, build, log):
    """Oracle cross-check run by setup: refjson vs python's json module."""
    st = os.path.join(root, 'selftest', 'oracle_crosscheck.py')
    if not os.path.exists(st):
        return True
    r = subprocess.run(['python3', st], cwd=root)
    return r.returncode == 0

# properties deliberately not claimed (none by design; entries here carry a reason)
NOT_APPLICABLE = {}
