// C07 - finite doubles print as the shortest decimal that reads back to the same double.
// Oracle (independent of sonic's parser): glibc strtod round-trip, JSON number grammar, minimality and closeness
// via glibc's correctly rounded "%.*e" candidates (exact expansion only for ties), 33-byte write bound.
#include <cmath>
#include <cstring>
#include <thread>
#include <xmmintrin.h>
#include <memory>
#include <set>

#include "common/genjson.hpp"
#include "common/harness.hpp"
#include "common/wb_edge.hpp"
#include "common/refjson.hpp"
#include "common/sonic_mv.hpp"

using namespace vf;
using namespace sonic_json;

namespace {

static std::set<int> g_dec_exps;  // decimal exponents seen (each selects a different power-of-ten table entry)

static uint64_t dbits(double d) { uint64_t b; memcpy(&b, &d, 8); return b; }
static double bitsd(uint64_t b) { double d; memcpy(&d, &b, 8); return d; }

struct Dec {  // value = 0.D * 10^E  (D without leading/trailing zeros)
  bool neg = false;
  std::string D;
  int E = 0;
};

// parse a JSON number spelling into digits/exponent form (no rounding)
static bool to_dec(const std::string& t, Dec& o) {
  size_t i = 0;
  o = Dec();
  if (i < t.size() && t[i] == '-') { o.neg = true; i++; }
  std::string ip, fp;
  while (i < t.size() && isdigit((unsigned char)t[i])) ip.push_back(t[i++]);
  if (i < t.size() && t[i] == '.') {
    i++;
    while (i < t.size() && isdigit((unsigned char)t[i])) fp.push_back(t[i++]);
  }
  int ex = 0;
  if (i < t.size() && (t[i] == 'e' || t[i] == 'E')) ex = atoi(t.c_str() + i + 1);
  std::string all = ip + fp;
  int E = (int)ip.size() + ex;
  size_t lead = all.find_first_not_of('0');
  if (lead == std::string::npos) { o.D = "0"; o.E = 0; return true; }
  all.erase(0, lead);
  E -= (int)lead;
  while (all.size() > 1 && all.back() == '0') all.pop_back();
  o.D = all;
  o.E = E;
  return true;
}
static std::string from_dec(const Dec& d) {
  char eb[32];
  snprintf(eb, sizeof eb, "e%d", d.E - 1);
  std::string s = d.neg ? "-" : "";
  s += d.D.substr(0, 1);
  if (d.D.size() > 1) s += "." + d.D.substr(1);
  return s + eb;
}
static void inc(Dec& d, size_t n) {  // +1 unit in the n-th digit (pads D to n digits)
  while (d.D.size() < n) d.D.push_back('0');
  int i = (int)n - 1;
  while (i >= 0 && d.D[(size_t)i] == '9') d.D[(size_t)i--] = '0';
  if (i < 0) { d.D.insert(d.D.begin(), '1'); d.D.pop_back(); d.E++; }
  else d.D[(size_t)i]++;
}
static bool dec(Dec& d, size_t n) {
  while (d.D.size() < n) d.D.push_back('0');
  int i = (int)n - 1;
  while (i >= 0 && d.D[(size_t)i] == '0') d.D[(size_t)i--] = '9';
  if (i < 0) return false;
  d.D[(size_t)i]--;
  if (d.D[0] == '0') { d.D.erase(0, 1); d.D.push_back('9'); d.E--; }
  return true;
}
static std::string trimmed(std::string D) {
  while (D.size() > 1 && D.back() == '0') D.pop_back();
  return D;
}

static bool g_daz = false;  // --daz: MXCSR.DAZ|FTZ set while the library prints

static std::string judge(uint64_t bits) {
  double d = bitsd(bits);
  // (3) write bound: the serializer reserves 33 bytes per number
#if defined(VF_CANARY)
  char raw[64];
  memset(raw, 0x5A, sizeof raw);
  char* out = raw;
#else
  std::unique_ptr<char[]> holder(new char[33]);
  char* out = holder.get();
#endif
  // the printing routine is integer arithmetic: the floating-point environment of the caller (here: denormals-are-zero and
  // flush-to-zero, what -ffast-math start-up code or audio/ML libraries leave in MXCSR) must not change its output.
  // Everything else (oracles, parse-back) runs in the default environment.
  unsigned csr = _mm_getcsr();
  if (g_daz) _mm_setcsr(csr | 0x8040u);
  int n = internal::F64toa(out, d);
  _mm_setcsr(csr);
#if defined(VF_CANARY)
  for (int i = 33; i < 64; i++)
    if (raw[i] != 0x5A) return "F64toa wrote beyond the 33 bytes the serializer reserves";
#endif
  char b[256];
  if (n <= 0 || n > 32) {
    snprintf(b, sizeof b, "F64toa returned length %d for a finite double", n);
    return b;
  }
  std::string s(out, (size_t)n);
  // (2) JSON number with a fraction or an exponent
  refjson::Result r = refjson::parse(s);
  if (!r.ok || r.value.k != MV::Real || s.find_first_of(".eE") == std::string::npos ||
      s.find_first_not_of("0123456789+-.eE") != std::string::npos)
    return "output is not a JSON number that reads back as a double: " + s;
  // (1) round trip through glibc
  if (dbits(strtod(s.c_str(), nullptr)) != bits) return "output does not read back (strtod) to the same double: " + s;
  if (d == 0) return s == ((bits >> 63) ? "-0.0" : "0.0") ? "" : "zero printed as " + s;
  Dec od;
  to_dec(s, od);
  size_t nd = od.D.size();
  g_dec_exps.insert(od.E);
  // (4) minimality: no (nd-1)-digit decimal reads back to d. The nearest (nd-1)-digit decimal and its two
  // neighbours cover the floor and ceiling candidates (rounding intervals are convex).
  if (nd > 1) {
    snprintf(b, sizeof b, "%.*e", (int)nd - 2, d);
    Dec c0;
    to_dec(b, c0);
    for (int k = -1; k <= 1; k++) {
      Dec c = c0;
      if (k == 1) inc(c, nd - 1);
      if (k == -1 && !dec(c, nd - 1)) continue;
      if (dbits(strtod(from_dec(c).c_str(), nullptr)) == bits)
        return "not shortest: " + s + " has " + std::to_string(nd) + " digits but " + from_dec(c) + " also reads back to it";
    }
  }
  // (5) closeness: the correctly rounded nd-digit decimal is the closest nd-digit candidate
  snprintf(b, sizeof b, "%.*e", (int)nd - 1, d);
  Dec nearest;
  to_dec(b, nearest);
  if (trimmed(nearest.D) != od.D || nearest.E != od.E) {
    static char big[1200];
    snprintf(big, sizeof big, "%.780e", d);
    Dec ex;
    to_dec(big, ex);
    bool nearest_reads_back = dbits(strtod(from_dec(nearest).c_str(), nullptr)) == bits;
    if (nearest_reads_back) {
      // allowed only for an exact tie: the exact expansion has nd+1 digits ending in 5
      bool tie = ex.D.size() == nd + 1 && ex.D.back() == '5';
      if (!tie)
        return "not the closest " + std::to_string(nd) + "-digit decimal: printed " + s + " but " + std::string(b) +
               " is nearer and also reads back";
    } else {
      // irregular interval (power of two): the nearest nd-digit decimal lies outside the rounding interval.
      // The next closest candidate is the neighbour on the other side of d.
      auto less = [](const Dec& x, const Dec& y) {  // |x| < |y|
        if (x.E != y.E) return x.E < y.E;
        std::string a = x.D, bq = y.D;
        while (a.size() < bq.size()) a.push_back('0');
        while (bq.size() < a.size()) bq.push_back('0');
        return a < bq;
      };
      Dec other = nearest;
      if (less(nearest, ex)) inc(other, nd);
      else dec(other, nd);
      bool other_reads_back = dbits(strtod(from_dec(other).c_str(), nullptr)) == bits;
      if (other_reads_back && (trimmed(other.D) != od.D || other.E != od.E))
        return "not the closest " + std::to_string(nd) + "-digit decimal that reads back: printed " + s + " but " +
               from_dec(other) + " is nearer";
    }
  }
  // (6) the library reads its own output back to the same double
  Document doc;
  doc.Parse(s.data(), s.size());
  if (doc.HasParseError() || !doc.IsDouble() || dbits(doc.GetDouble()) != bits)
    return "Document::Parse of the output does not give the same double: " + s;
  return "";
}

static void property(Src& s, Case& c) {
  uint64_t bits;
  std::string kind;
  uint64_t ex = c.index % 2047;  // every binary exponent in rotation (0 = subnormal range)
  switch (s.weighted({30, 12, 10, 10, 10, 8, 10, 10})) {
    case 0: bits = (ex << 52) | (s.u64() & ((1ull << 52) - 1)); kind = "exp-rotation:random-sig"; break;
    case 1: {
      static const uint64_t sigs[] = {0, 1, (1ull << 52) - 1, 1ull << 51, (1ull << 51) - 1, 2, (1ull << 52) - 2};
      bits = (ex << 52) | sigs[s.index(7)];
      kind = "exp-rotation:boundary-sig";
      break;
    }
    case 2: bits = 1ull << s.range(0, 51); if (s.coin(1, 2)) bits |= s.u64() & (bits - 1); kind = "subnormal"; break;
    case 3: {  // integer-valued
      if (s.coin(1, 2)) bits = dbits((double)(s.u64() >> s.range(0, 63)));
      else {
        char t[32];
        snprintf(t, sizeof t, "1e%d", s.range(0, 23));
        bits = dbits(strtod(t, nullptr)) + (uint64_t)s.range(0, 2) - 1;
      }
      kind = "integer-valued";
      break;
    }
    case 4: {
      uint32_t f = (uint32_t)s.pick(0, 0xffffffffull);
      float x;
      memcpy(&x, &f, 4);
      if (!std::isfinite(x)) x = 1.5f;
      bits = dbits((double)x);
      kind = "float-value";
      break;
    }
    case 5: {  // format switches 1e-7..1e-5, 1e20..1e22
      char t[40];
      snprintf(t, sizeof t, "%llu.%llue%d", (unsigned long long)s.pick(1, 9), (unsigned long long)s.pick(0, 999999), s.coin(1, 2) ? s.range(-8, -4) : s.range(19, 23));
      bits = dbits(strtod(t, nullptr));
      if (s.coin(1, 3)) {  // 17 significant digits just above the switch to positional notation: the longest spellings (25 bytes)
        snprintf(t, sizeof t, "-%llu.%016llue-6", (unsigned long long)s.pick(1, 9), (unsigned long long)s.pick(0, 9999999999999999ull));
        bits = dbits(strtod(t, nullptr));
      }
      kind = "format-switch";
      break;
    }
    case 6: {  // short decimals (few digits) at every decimal exponent
      char t[40];
      snprintf(t, sizeof t, "%llue%d", (unsigned long long)s.pick(1, 99999), s.range(-330, 305));
      bits = dbits(strtod(t, nullptr));
      kind = "short-decimal";
      break;
    }
    default: bits = s.u64(); kind = "random-bits"; break;
  }
  if (s.coin(1, 4)) bits |= 1ull << 63;
  if (((bits >> 52) & 0x7ff) == 0x7ff) bits &= ~(1ull << 52);  // keep it finite
  c.note("bits", std::to_string(bits));
  c.cls("class:" + kind);
  double d = bitsd(bits);
  c.nt(!(d == std::floor(d) && std::fabs(d) < 9007199254740992.0));
  if (c.counting) {
    char t[64];
    snprintf(t, sizeof t, "0x%016llx (%.17g)", (unsigned long long)bits, d);
    c.desc(t);
  }
  std::string m = judge(bits);
  if (m.empty()) {
    char out[40];
    int n = internal::F64toa(out, d);
    if (n >= 24) c.cls("spelling>=24-bytes");
    // four threads print doubles of their own at the same time: what one thread prints must not depend on the others
    if (s.coin(1, 60)) {
      c.cls("four-threads");
      double base = std::fabs(d) > 1e-3 && std::fabs(d) < 1e15 ? d : 560.17583507047459;
      // (thread 0 prints the double under test itself, as the very first value of a thread that has never printed before)
      double mine[4] = {d, base * 1.0009765625 + 0.37, -base * 3.3 - 17.25, base / 7.1 + 1234.5678};
      std::string want[4], bad[4];
      for (int t = 0; t < 4; t++) { char o[40]; int k = internal::F64toa(o, mine[t]); want[t].assign(o, (size_t)(k > 0 ? k : 0)); }
      std::vector<std::thread> th;
      for (int t = 0; t < 4; t++)
        th.emplace_back([&, t] {
          char o[40];
          for (int rep = 0; rep < 1200 && bad[t].empty(); rep++) {
            int k = internal::F64toa(o, mine[t]);
            if (k <= 0 || std::string(o, (size_t)k) != want[t]) bad[t] = std::string(o, (size_t)(k > 0 ? k : 0));
          }
        });
      for (auto& x : th) x.join();
      c.subevals += 4800;
      for (int t = 0; t < 4 && m.empty(); t++)
        if (!bad[t].empty()) m = "with four threads printing their own doubles: " + want[t] + " came out as " + bad[t];
    }
    // the same double at the end of a document, with every amount of space 18..48 left in the write buffer
    if (n > 0 && (n >= 24 ? s.coin(1, 4) : s.coin(1, 64))) {
      c.cls("write-buffer-edge-sweep");
      m = wb_edge_sweep([&](Node& x) { x.SetDouble(d); }, std::string(out, (size_t)n), 18, 48, c.subevals);
    }
  }
  if (!m.empty()) {
    char t[64];
    snprintf(t, sizeof t, " | bits=0x%016llx (%.17g)", (unsigned long long)bits, d);
    c.fail(m + t);
  }
}

static void direct(const Fields& f, Case& c) {
  const std::string* b = field(f, "bits");
  if (!b) c.fail("replay has no bits field");
  uint64_t bits = strtoull(b->c_str(), nullptr, 0);
  if (((bits >> 52) & 0x7ff) == 0x7ff) return;
  bool keep = g_daz;
  g_daz = false;
  std::string m = judge(bits);
  if (m.empty()) {
    g_daz = true;
    m = judge(bits);
    if (!m.empty()) m = "[with MXCSR.DAZ|FTZ set] " + m;
  }
  g_daz = keep;
  if (m.empty()) {
    char out[40];
    double d = bitsd(bits);
    int n = internal::F64toa(out, d);
    uint64_t ev = 0;
    if (n > 0) m = wb_edge_sweep([&](Node& x) { x.SetDouble(d); }, std::string(out, (size_t)n), 18, 48, ev);
  }
  if (!m.empty()) c.fail(m);
}

}  // namespace

VF_HARNESS_MAIN((HarnessDef{"c07_ftoa", "C07", property, direct, [] { g_daz = arg_value("daz") != nullptr; }, [](std::map<std::string, std::string>& e) {
                              e["decimal_exponents_seen"] = std::to_string(g_dec_exps.size());
                            }}))
