// C20 - UpdateLazy is a faithful recursive object merge.
// Oracle: merge_lazy() transcribed from the statement, applied to the generating values (keys compared by their
// decoded bytes); the result text must be accepted by the independent recogniser and parse (refjson) to the model.
#include <algorithm>
#include <cstring>
#include <thread>
#include <functional>

#include "common/genjson.hpp"
#include "common/harness.hpp"
#include "common/models.hpp"
#include "common/refjson.hpp"
#include "common/sonic_mv.hpp"
#include "sonic/experiment/lazy_update.h"

using namespace vf;
using namespace sonic_json;

namespace {

static const std::vector<std::string> kPool = {"a", "b", "c", "k", "", "x\"y", "back\\slash", "tab\t", "nl\n", "\x01", "é", "key", "n1", "n2",
                                                "a/b", "uni\xe2\x82\xac"};
static const char* kKindName[] = {"scalar", "arr", "obj", "empty-obj"};
static int kind_of(const MV& v) { return v.k == MV::Arr ? 1 : v.k == MV::Obj ? (v.o.empty() ? 3 : 2) : 0; }

static MV gen_side(Src& s, int depth, int& budget);
static MV gen_obj(Src& s, int depth, int& budget, size_t maxn) {
  MV m = MV::obj();
  size_t n = s.coin(1, 8) ? (size_t)s.pick(10, maxn) : (size_t)s.pick(0, 5);
  for (size_t i = 0; i < n && budget > 0; i++) {
    std::string k = (n > 8 || s.coin(1, 8)) ? (s.coin(1, 2) ? "k" + std::to_string(i) : gen_string(s, true, false)) : s.oneof(kPool);
    if (m.find(k)) continue;
    m.o.emplace_back(k, gen_side(s, depth + 1, budget));
  }
  return m;
}
static MV gen_side(Src& s, int depth, int& budget) {
  budget--;
  bool deep = depth < 6 && budget > 0;
  switch (s.weighted({6, 2, deep ? 10u : 1u, 2})) {
    case 0: return gen_scalar(s, GenOpts());
    case 1: {
      MV m = MV::arr();
      size_t n = (size_t)s.pick(0, 3);
      for (size_t i = 0; i < n && budget > 0; i++) m.a.push_back(gen_side(s, depth + 1, budget));
      return m;
    }
    case 2: return gen_obj(s, depth, budget, 40);
    default: return MV::obj();
  }
}

static std::string judge(const std::string& ttext, const std::string& stext, Case& c) {
  refjson::Result rt = refjson::parse(ttext), rs = refjson::parse(stext);
  if (!rt.ok || !rs.ok) return "ORACLE-SELF-CHECK: inputs must be valid";
  MV want = merge_lazy(rt.value, rs.value);
  std::string out = UpdateLazy(ttext, stext);
  refjson::Result ro = refjson::parse(out);
  c.subevals++;
  if (!ro.ok || ro.bad_surrogate)
    return std::string("result is not valid JSON (") + refjson::fault_name(ro.fault) + " at " + std::to_string(ro.offset) + "): " + printable(out, 300);
  if (has_dup_keys(ro.value)) return "result has duplicate keys: " + printable(out, 300);
  if (!eq_unordered(want, ro.value)) {
    // locate the difference for the message
    return "merged value differs from the model: expected " + mv_show(want, 260) + " got " + mv_show(ro.value, 260);
  }
  // members keep target order, new keys appended in source order (the statement: "new keys are appended")
  if (!eq_ordered(want, ro.value)) return "member order differs from target-order-then-appended: " + printable(out, 300);
  return "";
}

static void property(Src& s, Case& c) {
  int bt = 3 + c.size / 3, bs = 3 + c.size / 3;
  MV T = gen_side(s, 0, bt), S = gen_side(s, 0, bs);
  if (s.coin(3, 4)) {  // both roots objects with common keys most of the time
    if (T.k != MV::Obj) { int b = 6; T = gen_obj(s, 0, b, 40); }
    if (S.k != MV::Obj) { int b = 6; S = gen_obj(s, 0, b, 40); }
  }
  // make the source share keys with the target (at the root and one level down), so that replace / recursive-merge /
  // append all happen in most cases
  std::function<void(const MV&, MV&, int)> share = [&](const MV& t, MV& src, int depth) {
    if (t.k != MV::Obj || src.k != MV::Obj) return;
    MV out = MV::obj();
    for (auto& kv : t.o) {
      if (!s.coin(1, 2)) continue;
      int b = 4;
      MV v = (kv.second.k == MV::Obj && s.coin(2, 3)) ? gen_obj(s, depth + 1, b, 12) : gen_side(s, depth + 1, b);
      if (depth < 3) share(kv.second, v, depth + 1);
      out.o.emplace_back(kv.first, v);
    }
    for (auto& kv : src.o)
      if (!out.find(kv.first)) out.o.push_back(kv);
    // interleave: rotate so that shared keys are not always first
    if (out.o.size() > 1) std::rotate(out.o.begin(), out.o.begin() + (long)s.index(out.o.size()), out.o.end());
    src = out;
  };
  share(T, S, 0);
  if (s.coin(1, 25)) {
    // one member (of the target, of the source, or of both under different keys) whose value holds hundreds of small containers
    // of its own kind: UpdateLazy only slices such values out of the text by counting brackets
    if (T.k != MV::Obj) T = MV::obj();
    if (S.k != MV::Obj) S = MV::obj();
    size_t where = s.index(3);
    if (where != 1 && !T.find("many-t")) T.o.insert(T.o.begin() + (long)s.index(T.o.size() + 1), std::make_pair(std::string("many-t"), gen_many_containers(s)));
    if (where != 0 && !S.find("many-s")) S.o.insert(S.o.begin() + (long)s.index(S.o.size() + 1), std::make_pair(std::string("many-s"), gen_many_containers(s)));
    c.cls("value-with-hundreds-of-containers");
  }
  Layout lt, ls;
  lt.ws = (int)s.index(3);
  ls.ws = (int)s.index(3);
  lt.escapes = s.coin(2, 3);  // keys spelled with and without escapes independently on the two sides
  ls.escapes = s.coin(2, 3);
  std::string ttext = render(s, T, lt), stext = render(s, S, ls);
  c.note("target", ttext);
  c.note("source", stext);
  c.cls(std::string("root:") + kKindName[kind_of(T)] + "<-" + kKindName[kind_of(S)]);
  bool common = false, esc = false;
  if (T.k == MV::Obj && S.k == MV::Obj)
    for (auto& kv : S.o) common = common || T.find(kv.first);
  esc = ttext.find('\\') != std::string::npos || stext.find('\\') != std::string::npos;
  // keys whose raw spelling contains an escape
  auto key_escaped = [&](const std::string& text) {
    // cheap: a backslash inside a key position is likely when escapes are on and keys need them
    return text.find("\\") != std::string::npos;
  };
  if (common) c.cls("common-key");
  if (esc) c.cls("some-escape-in-text");
  if (key_escaped(ttext) != key_escaped(stext)) c.cls("escape-on-one-side-only");
  if (T.k == MV::Obj && T.o.size() >= 10) c.cls("large-target-object");
  c.nt(common || esc);
  if (c.counting) c.desc("target=" + printable(ttext, 90) + " source=" + printable(stext, 90));
  std::string m = judge(ttext, stext, c);
  if (m.empty() && s.coin(1, 120)) {
    // four threads merge pairs of their own at the same time: the result of a merge must not depend on the other threads
    c.cls("four-threads");
    std::string tt[4] = {ttext, stext, "{\"a\":{\"b\":[1,2,3]},\"t\":\"" + std::string(300, 'x') + "\"}", ttext};
    std::string ss[4] = {stext, ttext, "{\"a\":{\"c\":null},\"u\":" + ttext + "}", "{\"only\":1}"};
    std::string want[4], bad[4];
    for (int t = 0; t < 4; t++) want[t] = UpdateLazy(tt[t], ss[t]);
    std::vector<std::thread> th;
    for (int t = 0; t < 4; t++)
      th.emplace_back([&, t] {
        for (int rep = 0; rep < 300 && bad[t].empty(); rep++) {
          std::string got = UpdateLazy(tt[t], ss[t]);
          if (got != want[t]) bad[t] = got;
        }
      });
    for (auto& x : th) x.join();
    c.subevals += 1200;
    for (int t = 0; t < 4 && m.empty(); t++)
      if (!bad[t].empty()) m = "with four threads merging their own pairs, thread " + std::to_string(t) + " got " + printable(bad[t], 120) + " instead of " + printable(want[t], 120);
  }
  if (!m.empty()) c.fail(m + " | target=" + printable(ttext, 300) + " source=" + printable(stext, 300));
}

static void direct(const Fields& f, Case& c) {
  const std::string *t = field(f, "target"), *s = field(f, "source");
  if (!t || !s) c.fail("replay needs target and source");
  refjson::Result rt = refjson::parse(*t), rs = refjson::parse(*s);
  if (!rt.ok || !rs.ok || rt.bad_surrogate || rs.bad_surrogate || has_dup_keys(rt.value) || has_dup_keys(rs.value)) return;
  std::string m = judge(*t, *s, c);
  if (!m.empty()) c.fail(m);
}

}  // namespace

#ifdef VF_FUZZ
extern "C" int LLVMFuzzerTestOneInput(const uint8_t* data, size_t size) {
  // input = target text + 0x00 + source text
  static HarnessDef def{"fz_lazy", "C20", nullptr,
                        [](const Fields& f, Case& c) {
                          const std::string& raw = *field(f, "raw");
                          size_t z = raw.find('\0');
                          if (z == std::string::npos) return;
                          Fields g{{"target", raw.substr(0, z)}, {"source", raw.substr(z + 1)}};
                          direct(g, c);
                        },
                        nullptr, nullptr};
  return fuzz_bytes(def, data, size, "raw");
}
#else
VF_HARNESS_MAIN((HarnessDef{"c20_lazy", "C20", property,
                            [](const Fields& f, Case& c) {
                              if (const std::string* raw = field(f, "raw")) {
                                size_t z = raw->find('\0');
                                if (z == std::string::npos) return;
                                Fields g{{"target", raw->substr(0, z)}, {"source", raw->substr(z + 1)}};
                                direct(g, c);
                                return;
                              }
                              direct(f, c);
                            },
                            nullptr, nullptr}))
#endif
