// C19 - ParseSchema updates exactly the members the existing document declares (model-based differential).
// Oracle: merge_schema() transcribed from the statement (src/common/models.hpp); document read back through the
// accessor walk and through Dump -> refjson; the document must stay usable (serialise, copy, destroy) under ASan.
#include <algorithm>
#include <cstring>
#include <functional>
#include <memory>

#include "common/genjson.hpp"
#include "common/harness.hpp"
#include "common/mutate.hpp"
#include "common/models.hpp"
#include "common/refjson.hpp"
#include "common/sonic_mv.hpp"
#include "common/track_alloc.hpp"

using namespace vf;
using namespace sonic_json;

namespace {

typedef GenericDocument<DNode<SimpleAllocator>> FreeDoc;
typedef GenericDocument<DNode<TrackingAllocator>> TrackDoc;

static const std::vector<std::string> kPool = {"a", "b", "c", "d", "k", "x", "", "key\"q", "n1", "n2"};
static const char* kKindName[] = {"null", "bool", "num", "str", "arr", "obj", "empty-arr", "empty-obj"};
static int kind_of(const MV& v) {
  switch (v.k) {
    case MV::Null: return 0;
    case MV::False: case MV::True: return 1;
    case MV::Uint: case MV::Sint: case MV::Real: return 2;
    case MV::Str: return 3;
    case MV::Arr: return v.a.empty() ? 6 : 4;
    default: return v.o.empty() ? 7 : 5;
  }
}

// accepted outcomes: the model, or (where the statement leaves it open) the variant in which a non-empty existing
// object met by {} becomes {}
static MV merge_alt(const MV& E, const MV& T) {
  if (E.k == MV::Obj && !E.o.empty() && T.k == MV::Obj) {
    if (T.o.empty()) return T;
    MV out = E;
    for (auto& kv : out.o) {
      const MV* t = T.find(kv.first);
      if (t) kv.second = merge_alt(kv.second, *t);
    }
    return out;
  }
  return T;
}

template <class DocT>
static std::string apply_and_check(DocT& doc, MV& model, const std::vector<std::string>& texts, Case& c) {
  for (size_t i = 0; i < texts.size(); i++) {
    refjson::Result r = refjson::parse(texts[i]);
    if (!r.ok) return "ORACLE-SELF-CHECK: schema text is not valid JSON";
    MV want = merge_schema(model, r.value);
    MV alt = merge_alt(model, r.value);
    std::unique_ptr<char[]> buf(new char[texts[i].size() ? texts[i].size() : 1]);
    memcpy(buf.get(), texts[i].data(), texts[i].size());
    doc.ParseSchema(buf.get(), texts[i].size());
    memset(buf.get(), 0xEE, texts[i].size());
    buf.reset();
    c.subevals++;
    char b[160];
    if (doc.HasParseError()) {
      snprintf(b, sizeof b, "ParseSchema rejected a valid text (code %d at %zu), application %zu", (int)doc.GetParseError(), doc.GetErrorOffset(), i);
      return b;
    }
    std::string err;
    MV got = walk(doc, &err);
    if (!err.empty()) return "document inconsistent after ParseSchema: " + err;
    bool ok = eq_ordered(want, got);
    bool ok_alt = eq_ordered(alt, got);
    if (!ok && !ok_alt)
      return "result differs from the model (expected vs got) at " + mv_diff(want, got) + " | existing=" + printable(refjson::write(model), 200) +
             " text=" + printable(texts[i], 200) + " got=" + printable(refjson::write(got), 200);
    model = got;
    // still a healthy document: serialises to what it holds, copies, compares
    std::string out = doc.Dump();
    refjson::Result rr = refjson::parse(out);
    if (!rr.ok || !eq_ordered(got, rr.value)) return "document does not serialise to its own value after ParseSchema: " + printable(out, 200);
    DocT copy;
    copy.CopyFrom(doc, copy.GetAllocator(), true);
    if (!(copy == doc)) return "deep copy of the updated document is not equal to it";
  }
  // ... and still an ordinary mutable document: every container takes one more child (objects: a new key; arrays: an element),
  // the result reads back as the value plus those children (capacity / size bookkeeping of the containers ParseSchema built)
  {
    using N = typename DocT::NodeType;
    auto& alloc = doc.GetAllocator();
    std::function<void(N&, MV&)> grow = [&](N& n, MV& mv) {
      if (n.IsObject()) {
        for (size_t i = 0; i < mv.o.size(); i++) grow((n.MemberBegin() + (long)i)->value, mv.o[i].second);
        if (!mv.find("\x03" "added-afterwards")) {
          N v;
          v.SetUint64(77);
          n.AddMember("\x03" "added-afterwards", std::move(v), alloc);
          mv.o.emplace_back("\x03" "added-afterwards", MV::uint(77));
        }
      } else if (n.IsArray()) {
        for (size_t i = 0; i < mv.a.size(); i++) grow(n[i], mv.a[i]);
        N v;
        v.SetUint64(78);
        n.PushBack(std::move(v), alloc);
        mv.a.push_back(MV::uint(78));
      }
    };
    grow(static_cast<N&>(doc), model);
    std::string err;
    MV got = walk(doc, &err);
    if (!err.empty()) return "document inconsistent after adding one child to every container: " + err;
    if (!eq_ordered(model, got)) return "after ParseSchema, adding one child to every container gives a wrong document at " + mv_diff(model, got);
    if (doc.Dump() != DocT().Parse(doc.Dump()).Dump()) return "after ParseSchema + growth the document does not re-serialise stably";
  }
  return "";
}

// give containers of the existing document a history that does not change their value: spare capacity, an empty
// object that still owns its member buffer (add + remove), lookup maps. mode: 0 none, 1 everything, 2 random (needs s)
template <class N, class A>
static void decorate(N& n, A& alloc, int mode, Src* s) {
  auto yes = [&](unsigned num, unsigned den) { return mode == 1 || (mode == 2 && s && s->coin(num, den)); };
  if (mode == 0) return;
  if (n.IsObject()) {
    if (yes(1, 3)) n.MemberReserve(n.Size() + 3, alloc);
    if (yes(1, 3)) {
      N t;
      t.SetString("temporary member value", 22, alloc);
      n.AddMember("\x02tmp\x03", std::move(t), alloc);
      n.RemoveMember("\x02tmp\x03");
    }
    if (yes(1, 3)) n.CreateMap(alloc);
    for (auto it = n.MemberBegin(); it != n.MemberEnd(); ++it) decorate(it->value, alloc, mode, s);
  } else if (n.IsArray()) {
    if (yes(1, 3)) n.Reserve(n.Size() + 3, alloc);
    if (yes(1, 4)) {
      N t;
      t.SetString("temporary element", 17, alloc);
      n.PushBack(std::move(t), alloc);
      n.PopBack();
    }
    for (auto it = n.Begin(); it != n.End(); ++it) decorate(*it, alloc, mode, s);
  }
}

static std::string run(const MV& existing, bool build_by_parse, int alloc_kind, const std::vector<std::string>& texts, Case& c,
                       int decor_mode = 0, Src* src = nullptr) {
  std::string m;
  std::string etext = refjson::write(existing);
  auto go = [&](auto& doc) {
    if (build_by_parse) {
      doc.Parse(etext);
      if (doc.HasParseError()) { m = "ORACLE-SELF-CHECK: existing text rejected"; return; }
    } else
      build(doc, existing, doc.GetAllocator(), true);
    decorate(static_cast<typename std::remove_reference<decltype(doc)>::type::NodeType&>(doc), doc.GetAllocator(), decor_mode, src);
    MV model = existing;
    m = apply_and_check(doc, model, texts, c);
  };
  if (alloc_kind == 0) { Document d; go(d); }
  else if (alloc_kind == 1) { FreeDoc d; go(d); }
  else {
    ledger().reset();
    {
      TrackDoc d;
      go(d);
    }
    if (m.empty() && !ledger().errors.empty()) m = "tracking allocator: " + ledger().errors[0];
    if (m.empty() && !ledger().live.empty())
      m = "tracking allocator: " + std::to_string(ledger().live.size()) + " block(s) still allocated after the document was destroyed";
  }
  return m;
}

// generator: existing value E and text value T drawn from a shared key pool so that declared / undeclared / omitted
// keys all occur at every level; every kind combination at the root and at matched keys
static MV gen_side(Src& s, int depth, int& budget, bool root);
static MV gen_obj(Src& s, int depth, int& budget) {
  MV m = MV::obj();
  size_t n = (size_t)s.weighted({2, 3, 3, 2, 1});
  for (size_t i = 0; i < n && budget > 0; i++) {
    std::string k = s.oneof(kPool);
    if (m.find(k)) continue;
    m.o.emplace_back(k, gen_side(s, depth + 1, budget, false));
  }
  return m;
}
static MV gen_side(Src& s, int depth, int& budget, bool root) {
  budget--;
  bool deep = depth < 5 && budget > 0;
  switch (s.weighted({2, 2, 3, 3, deep ? 5u : 1u, deep ? 8u : 1u, 2, 2})) {
    case 0: return MV::null();
    case 1: return MV::boolean(s.coin(1, 2));
    case 2: return gen_number(s, true);
    case 3: return MV::str(gen_string(s, true, s.coin(1, 6)));
    case 4: {
      MV m = MV::arr();
      size_t n = (size_t)s.pick(1, 3);
      for (size_t i = 0; i < n && budget > 0; i++) m.a.push_back(gen_side(s, depth + 1, budget, false));
      if (m.a.empty()) m.a.push_back(MV::uint(1));
      return m;
    }
    case 5: {
      MV m = gen_obj(s, depth, budget);
      if (m.o.empty()) m.o.emplace_back("a", MV::uint(1));
      return m;
    }
    case 6: return MV::arr();
    default: return MV::obj();
  }
  (void)root;
}

// a text value derived from the existing value: keeps most declared keys (recursively), changes some kinds, drops some
// keys, adds undeclared ones - so that deep matched positions with every kind combination are common
static MV derive(Src& s, const MV& e, int depth, int& budget) {
  budget--;
  if (e.k == MV::Obj && !s.coin(1, 6)) {
    MV t = MV::obj();
    for (auto& kv : e.o) {
      if (s.coin(1, 5)) continue;  // omitted by the text
      MV v = s.coin(2, 3) ? derive(s, kv.second, depth + 1, budget) : gen_side(s, depth + 1, budget, false);
      t.o.emplace_back(kv.first, v);
    }
    size_t extra = (size_t)s.weighted({3, 2, 1});
    for (size_t i = 0; i < extra; i++) {
      std::string k = s.oneof(kPool);
      if (t.find(k)) continue;
      t.o.emplace_back(k, gen_side(s, depth + 1, budget, false));
    }
    if (t.o.size() > 1) std::rotate(t.o.begin(), t.o.begin() + (long)s.index(t.o.size()), t.o.end());
    return t;
  }
  return gen_side(s, depth, budget, false);
}

static void property(Src& s, Case& c) {
  int be = 4 + c.size / 4, bt = 4 + c.size / 4;
  MV E = gen_side(s, 0, be, true);
  if (s.coin(2, 3) && E.k != MV::Obj) { int b = be + 4; E = gen_obj(s, 0, b); if (E.o.empty()) E.o.emplace_back("a", MV::uint(1)); }
  const bool derived = s.coin(2, 3);
  c.cls(derived ? "text:derived-from-existing" : "text:independent");
  size_t napps = (size_t)s.weighted({6, 3, 1}) + 1;
  std::vector<MV> Ts;
  std::vector<std::string> texts;
  Layout lay;
  lay.ws = (int)s.index(3);
  for (size_t i = 0; i < napps; i++) {
    int b2 = bt + 6;
    MV T = derived ? derive(s, i == 0 ? E : Ts.back(), 0, b2) : gen_side(s, 0, b2, true);
    std::string ttext;
    if (s.coin(1, 16)) {
      // a maximally dense array (one byte per scalar, no white space) as the whole text or as the value of a declared key:
      // the handler's node stack is sized from the text length
      std::string dt = dense_text(s);
      refjson::Result rr = refjson::parse(dt);
      if (!rr.ok) c.fail("ORACLE-SELF-CHECK: dense text rejected by the reference");
      const MV& cur = i == 0 ? E : Ts.back();
      if (cur.k == MV::Obj && !cur.o.empty() && s.coin(1, 2)) {
        MV w = MV::obj();
        w.o.emplace_back(cur.o[s.index(cur.o.size())].first, rr.value);
        T = w;
        ttext = refjson::write(w);
      } else {
        T = rr.value;
        ttext = dt;
      }
      c.cls("text:dense");
    }
    Ts.push_back(T);
    texts.push_back(ttext.empty() ? render(s, T, lay) : ttext);
  }
  bool by_parse = s.coin(1, 2);
  int ak = (int)s.weighted({3, 3, 3});
  c.note("existing", refjson::write(E));
  for (size_t i = 0; i < texts.size(); i++) c.note("text" + std::to_string(i), texts[i]);
  c.note("alloc", std::to_string(ak));
  c.note("by_parse", by_parse ? "1" : "0");
  c.cls(std::string("root:") + kKindName[kind_of(E)] + "<-" + kKindName[kind_of(Ts[0])]);
  // depth-1 kind combinations at matched keys
  if (E.k == MV::Obj && Ts[0].k == MV::Obj)
    for (auto& kv : E.o)
      if (const MV* t = Ts[0].find(kv.first)) c.cls(std::string("key:") + kKindName[kind_of(kv.second)] + "<-" + kKindName[kind_of(*t)]);
  static const char* an[] = {"pool", "freeing", "tracking"};
  c.cls(std::string("alloc:") + an[ak]);
  if (napps > 1) c.cls("repeated-application");
  if (schema_underspecified(E, Ts[0])) c.cls("underspecified({} into non-empty object)");
  // array (containing an object) arriving where the existing side has an object node
  {
    std::function<bool(const MV&)> has_obj = [&](const MV& v) {
      if (v.k == MV::Obj) return true;
      for (auto& e : v.a) if (has_obj(e)) return true;
      return false;
    };
    std::function<bool(const MV&, const MV&)> shape = [&](const MV& e, const MV& t) -> bool {
      if (e.k == MV::Obj && t.k == MV::Arr && has_obj(t)) return true;
      if (e.k == MV::Obj && !e.o.empty() && t.k == MV::Obj)
        for (auto& kv : e.o)
          if (const MV* tt = t.find(kv.first))
            if (shape(kv.second, *tt)) return true;
      return false;
    };
    if (shape(E, Ts[0])) c.cls("array-with-object-into-object-node");
  }
  std::function<bool(const MV&, const MV&)> both_obj = [&](const MV& e, const MV& t) -> bool {
    return e.k == MV::Obj && !e.o.empty() && t.k == MV::Obj && !t.o.empty();
  };
  c.nt(both_obj(E, Ts[0]) || (E.k == MV::Obj && Ts[0].k == MV::Arr));
  if (c.counting) c.desc("existing=" + printable(refjson::write(E), 90) + " text=" + printable(texts[0], 90));
  int decor = (int)s.weighted({2, 1, 3});
  c.cls(decor == 0 ? "history:plain" : decor == 1 ? "history:all-decorated" : "history:random-decoration");
  std::string m = run(E, by_parse, ak, texts, c, decor, &s);
  if (!m.empty()) c.fail(m + " | existing=" + printable(refjson::write(E), 300) + " text0=" + printable(texts[0], 300) + " alloc=" + an[ak]);
}

static void direct(const Fields& f, Case& c) {
  const std::string* e = field(f, "existing");
  if (!e || !field(f, "text0")) c.fail("replay needs existing and text0");
  refjson::Result re = refjson::parse(*e);
  if (!re.ok || has_dup_keys(re.value)) return;
  std::vector<std::string> texts;
  for (int i = 0; i < 8; i++) {
    const std::string* t = field(f, "text" + std::to_string(i));
    if (!t) break;
    refjson::Result rt = refjson::parse(*t);
    if (!rt.ok || rt.bad_surrogate || has_dup_keys(rt.value)) return;
    texts.push_back(*t);
  }
  for (int ak = 0; ak < 3; ak++)
    for (int bp = 0; bp < 2; bp++)
      for (int decor = 0; decor < 2; decor++) {
        std::string m = run(re.value, bp == 1, ak, texts, c, decor, nullptr);
        if (!m.empty()) c.fail(m + " | alloc=" + std::to_string(ak) + " decorated=" + std::to_string(decor));
      }
}

}  // namespace

VF_HARNESS_MAIN((HarnessDef{"c19_schema", "C19", property, direct, nullptr, nullptr}))
