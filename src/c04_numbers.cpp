// C04 - numbers parse to the exact integer or the correctly rounded double; infinity rejected.
// Oracle: the integer rule of the statement + glibc strtod (correctly rounded) on the identical spelling.
// Hard cases are built from exact midpoints between adjacent doubles (80-bit long double holds them exactly;
// glibc prints their exact decimal expansion).
#include <cmath>
#include <cstring>
#include <xmmintrin.h>
#include <memory>
#include <set>

#include "common/genjson.hpp"
#include "common/harness.hpp"
#include "common/refjson.hpp"
#include "common/sonic_mv.hpp"

using namespace vf;
using namespace sonic_json;

namespace {

static std::set<int> g_rows;  // decimal exponents (table rows) touched by the mantissa x exponent stratum

static uint64_t dbits(double d) { uint64_t b; memcpy(&b, &d, 8); return b; }
static double bitsd(uint64_t b) { double d; memcpy(&d, &b, 8); return d; }

static bool g_daz = false;  // --daz: MXCSR.DAZ|FTZ set while the library parses (oracles run in the default environment)

static std::string judge(const std::string& num, int ctx, size_t pad) {
  MV want;
  bool finite = refjson::number_value(num, want);
  std::string text(pad, ' ');
  if (ctx == 0) text += num;
  else if (ctx == 1) text += "[0," + num + ",1]";
  else text += "{\"k\":" + num + ",\"z\":0}";
  // ctx 3: ParseSchema of {"k":NUM,"z":0} into a document that declares k (the number lands in an existing node);
  // ctx 4: ParseSchema of NUM into a document whose root is a scalar; ctx 5: ParseOnDemand of /k/1 in {"k":[0,NUM]}
  if (ctx == 5) text = std::string(pad, ' ') + "{\"k\":[0," + num + "]}";
  std::unique_ptr<char[]> buf(new char[text.size()]);
  memcpy(buf.get(), text.data(), text.size());
  Document doc;
  // conversion is integer arithmetic plus exact floating-point steps on normal numbers: denormals-are-zero / flush-to-zero in the
  // caller's MXCSR (what -ffast-math start-up code leaves behind) must not change any result
  unsigned csr = _mm_getcsr();
  if (g_daz) _mm_setcsr(csr | 0x8040u);
  if (ctx == 3) {
    doc.Parse("{\"k\":-1,\"z\":\"old\"}");
    doc.ParseSchema(buf.get(), text.size());
  } else if (ctx == 4) {
    doc.Parse("-7");
    doc.ParseSchema((std::string(pad, ' ') + num).c_str(), pad + num.size());
  } else if (ctx == 5) {
    JsonPointer jp;
    jp /= JsonPointerNode("k");
    jp /= JsonPointerNode(1);
    doc.ParseOnDemand(buf.get(), text.size(), jp);
  } else
    doc.Parse(buf.get(), text.size());
  _mm_setcsr(csr);
  char b[200];
  if (!finite) {
    if (!doc.HasParseError()) return "number that rounds to infinity was accepted";
    if (doc.GetParseError() != kParseErrorInfinity) {
      snprintf(b, sizeof b, "overflowing number rejected with code %d instead of the infinity error", (int)doc.GetParseError());
      return b;
    }
    return "";
  }
  if (doc.HasParseError()) {
    snprintf(b, sizeof b, "valid number rejected: code %d at %zu", (int)doc.GetParseError(), doc.GetErrorOffset());
    return b;
  }
  const Document::NodeType* n = &doc;
  if (ctx == 1) n = &doc[1];
  else if (ctx == 2 || ctx == 3) n = &doc.MemberBegin()->value;
  std::string err;
  MV got = walk(*n, &err);
  if (!err.empty()) return err;
  if (!eq_ordered(want, got)) return "wrong number: expected " + mv_show(want) + " got " + mv_show(got);
  return "";
}

// decimal string helpers ------------------------------------------------------------------------
static void dec_inc(std::string& d, int& e10) {  // d: digits, value 0.d * 10^e10
  int i = (int)d.size() - 1;
  while (i >= 0 && d[(size_t)i] == '9') d[(size_t)i--] = '0';
  if (i < 0) { d.insert(d.begin(), '1'); d.pop_back(); e10++; }
  else d[(size_t)i]++;
}
static bool dec_dec(std::string& d, int& e10) {
  int i = (int)d.size() - 1;
  while (i >= 0 && d[(size_t)i] == '0') d[(size_t)i--] = '9';
  if (i < 0) return false;
  d[(size_t)i]--;
  if (d[0] == '0') {  // lost the leading digit: 1000 -> 0999 ; renormalise
    d.erase(0, 1);
    d.push_back('9');
    e10--;
  }
  return true;
}

// value = 0.D * 10^E with D[0] != '0'
static std::string spell(Src& s, bool neg, const std::string& D, int E) {
  std::string o = neg ? "-" : "";
  size_t style = s.weighted({4, 3, 3});
  char eb[32];
  const char* e = s.coin(1, 3) ? "E" : "e";
  if (style == 2) {
    // plain positional when it stays reasonably short
    int len = (int)D.size();
    if (E > 0 && E <= len + 25) {
      if (E >= len) {
        o += D + std::string((size_t)(E - len), '0');
        if (s.coin(2, 3)) o += "." + std::string(s.pick(1, 3), '0');  // keep it a double most of the time
      } else
        o += D.substr(0, (size_t)E) + "." + D.substr((size_t)E);
      return o;
    }
    if (E <= 0 && -E <= 420) {
      o += "0." + std::string((size_t)(-E), '0') + D;
      return o;
    }
    style = 0;
  }
  if (style == 0) {  // d.ddd e (E-1)
    o += D.substr(0, 1);
    if (D.size() > 1) o += "." + D.substr(1);
    else if (s.coin(1, 2)) o += ".0";
    int x = E - 1;
    snprintf(eb, sizeof eb, "%s%s%d", e, (x >= 0 && s.coin(1, 2)) ? "+" : "", x);
    o += eb;
  } else {  // integer mantissa, possibly with the point moved inside
    size_t k = D.size() > 1 && s.coin(1, 2) ? (size_t)s.pick(1, D.size() - 1) : D.size();
    int x = E - (int)k;
    o += D.substr(0, k);
    if (k < D.size()) o += "." + D.substr(k);
    snprintf(eb, sizeof eb, "%s%s%d", e, (x >= 0 && s.coin(1, 3)) ? "+" : "", x);
    o += eb;
  }
  return o;
}

static std::string rand_digits(Src& s, size_t n, bool nonzero_first = true) {
  std::string d;
  for (size_t i = 0; i < n; i++) d.push_back((char)('0' + s.pick(i == 0 && nonzero_first ? 1 : 0, 9)));
  return d;
}

static void property(Src& s, Case& c) {
  std::string num, kind;
  bool neg = s.coin(1, 4);
  switch (s.weighted({12, 22, 30, 12, 8, 16})) {
    case 0: {  // integers: every digit count, boundaries
      kind = "integer";
      if (s.coin(1, 2)) {
        size_t nd = (size_t)s.pick(1, 22);
        num = (neg ? "-" : "") + rand_digits(s, nd);
        if (nd >= 19) kind = "integer>=19digits";
      } else {
        static const char* b[] = {"0", "-0", "9", "10", "99", "100", "9223372036854775807", "9223372036854775808",
                                  "9223372036854775809", "18446744073709551615", "18446744073709551616",
                                  "18446744073709551617", "-9223372036854775807", "-9223372036854775808",
                                  "-9223372036854775809", "-18446744073709551615", "-18446744073709551616",
                                  "9999999999999999999", "10000000000000000000", "99999999999999999999",
                                  "100000000000000000000", "-9999999999999999999", "18446744073709551614",
                                  "18446744073709551620", "184467440737095516150", "1844674407370955161",
                                  "9007199254740993", "-9007199254740993", "36893488147419103232"};
        num = b[s.index(sizeof b / sizeof b[0])];
        kind = "integer-boundary";
      }
      break;
    }
    case 1: {  // mantissa(1..19 digits) x every decimal exponent
      int e10 = -348 + (int)((c.index * 7 + s.pick(0, 6)) % 696);
      size_t nd = (size_t)s.pick(1, 19);
      std::string D = rand_digits(s, nd);
      if (s.coin(1, 8)) D = std::string(nd, '9');
      if (s.coin(1, 8)) D = "1" + std::string(nd - 1, '0');
      g_rows.insert(e10);
      // value = D * 10^e10 = 0.D * 10^(e10+nd)
      while (D.size() > 1 && D.back() == '0' && s.coin(1, 2)) { D.pop_back(); e10++; nd--; }
      num = spell(s, neg, D, e10 + (int)D.size());
      kind = "mantissa-x-exp10";
      break;
    }
    case 2: {  // halfway / just-off-halfway between adjacent doubles
      uint64_t bits = gen_double_bits(s) & ~(1ull << 63);
      if (s.coin(1, 3)) bits = ((uint64_t)s.pick(0, 2046) << 52) | (s.u64() & ((1ull << 52) - 1));
      if (bits >= 0x7fefffffffffffffull) bits = 0x7feffffffffffffeull;
      double d = bitsd(bits), nx = bitsd(bits + 1);
      long double mid = ((long double)d + (long double)nx) / 2;  // exact: 54 significant bits
      static char buf[1400];
      snprintf(buf, sizeof buf, "%.*Le", 800, mid);
      // buf = d.ddd...e[+-]XXXX
      std::string t = buf;
      size_t ep = t.find('e');
      int x = atoi(t.c_str() + ep + 1);
      std::string D = t.substr(0, 1) + t.substr(2, ep - 2);
      while (D.size() > 1 && D.back() == '0') D.pop_back();
      int E = x + 1;
      if (s.coin(1, 5)) {
        // the exact midpoint followed by zeros and a last non-zero digit (or the digit string just below it), total number
        // of significant digits anywhere in 20..830 with the region around the decimal fallback's digit capacity dense
        size_t lo = D.size() + 1;
        size_t n = s.coin(2, 3) ? (size_t)s.pick(790, 812) : s.coin(1, 2) ? (size_t)s.pick(760, 830) : (size_t)s.pick(20, 830);
        if (n < lo) n = lo + (size_t)s.pick(0, 3);
        bool up = s.coin(1, 2);
        D += std::string(n - D.size(), '0');
        if (up) D.back() = (char)('0' + s.pick(1, 9));
        else dec_dec(D, E);
        while (D.size() > 1 && D[0] == '0') { D.erase(0, 1); E--; }
        num = spell(s, neg, D, E);
        kind = std::string("halfway:padded-tail") + (up ? "+" : "-") + (n >= 799 && n <= 801 ? ":digits799-801" : "");
        if (bits < (1ull << 52)) kind += ":subnormal";
        break;
      }
      static const int cut[] = {17, 18, 19, 20, 21, 25, 40, 100, 770};
      size_t n = (size_t)cut[s.index(9)];
      bool exact = n >= D.size();
      if (!exact) D.resize(n);
      size_t adj = s.weighted({3, 3, 3});
      if (adj == 1) dec_inc(D, E);
      else if (adj == 2 && !dec_dec(D, E)) adj = 0;
      while (D.size() > 1 && D[0] == '0') { D.erase(0, 1); E--; }
      num = spell(s, neg, D, E);
      kind = std::string("halfway:") + (exact ? "exact" : "truncated") + (adj == 0 ? "" : adj == 1 ? "+1ulp" : "-1ulp");
      if (bits < (1ull << 52)) kind += ":subnormal";
      break;
    }
    case 3: {  // very long mantissas followed by exponent / fraction / nothing
      static const int lens[] = {20, 21, 25, 40, 100, 400, 769, 800, 801, 1200, 2000};
      size_t nd = (size_t)lens[s.index(11)];
      std::string D = rand_digits(s, nd);
      if (s.coin(1, 3)) {  // 2^64-ish prefixes followed by noise
        static const char* pre[] = {"18446744073709551615", "18446744073709551616", "9223372036854775808", "9007199254740993"};
        std::string p = pre[s.index(4)];
        D = p + D.substr(std::min(D.size(), p.size()));
      }
      size_t form = s.weighted({3, 3, 2, 2});
      num = neg ? "-" : "";
      if (form == 0) num += D + "e" + std::to_string(s.range(-400, 330) - (s.coin(1, 2) ? (int)nd : 0));
      else if (form == 1) num += D.substr(0, (size_t)s.pick(1, nd - 1)), num += "." + rand_digits(s, (size_t)s.pick(1, 40), false);
      else if (form == 2) num += D;
      else num += "0." + std::string((size_t)s.pick(0, 400), '0') + D;
      kind = "long-mantissa";
      break;
    }
    case 4: {  // zeros in every spelling
      num = neg ? "-" : "";
      switch (s.weighted({2, 3, 3, 3, 2})) {
        case 0: num += "0"; break;
        case 1: num += "0." + std::string((size_t)s.pick(1, 400), '0'); break;
        case 2: num += "0e" + std::string(s.coin(1, 2) ? "-" : "") + std::to_string(s.pick(0, 99999)); break;
        case 3: num += "0." + std::string((size_t)s.pick(1, 60), '0') + "E" + (s.coin(1, 2) ? "+" : "-") + std::to_string(s.pick(0, 5000)); break;
        default: num += "0.0e" + std::to_string(s.pick(0, 400)); break;
      }
      kind = "zero";
      break;
    }
    default: {  // overflow / underflow boundary
      static const char* b[] = {"1.7976931348623157e308", "1.7976931348623158e308", "1.7976931348623159e308",
                                "1.79769313486231580793728971405301e308", "1.797693134862315807937289714053e308",
                                "1.797693134862315708145274237317043567981e308", "1e308", "1e309", "2e308", "1.8e308",
                                "179769313486231580793728971405303415079934132710037826936173778980444968292764750946649017977587207096330286416692887910946555547851940402630657488671505820681908902000708383676273854845817711531764475730270069855571366959622842914819860834936475292719074168444365510704342711559699508093042880177904174497791.999",
                                "179769313486231580793728971405303415079934132710037826936173778980444968292764750946649017977587207096330286416692887910946555547851940402630657488671505820681908902000708383676273854845817711531764475730270069855571366959622842914819860834936475292719074168444365510704342711559699508093042880177904174497792",
                                "2.4703282292062327e-324", "2.4703282292062328e-324", "2.4703282292062329e-324", "4.9e-324",
                                "5e-324", "2.5e-324", "2.2250738585072014e-308", "2.2250738585072011e-308",
                                "2.225073858507201136057409796709131975934819546351645648023426109724822222021076945516529523908135087914149158913039621106870086438694594645527657207407820621743379988141063267329253552286881372149012981122451451889849057222307285255133155755015914397476397983411801999323962548289017107081850690630666655994938275772572015763062690663332647565300009245888316433037779791869612049497390377829704905051080609940730262937128958950003583799967207254304360284078895771796150945516748243471030702609144621572289880258182545180325707018860872113128079512233426288368622321503775666622503982534335974568884423900265498198385487948292206894721689831099698365846814022854243330660339850886445804001034933970427567186443383770486037861622771738545623065874679014086723327636718749999999999999999999999999999999999999e-308",
                                "1e99999", "1e-99999", "123e-100000", "0.1e309", "10e307", "100e306", "0.00001e314"};
      num = (neg ? "-" : "") + std::string(b[s.index(sizeof b / sizeof b[0])]);
      if (s.coin(1, 4)) {  // random magnitude near the edge
        char t[64];
        snprintf(t, sizeof t, "%llu.%llue%d", (unsigned long long)s.pick(1, 9), (unsigned long long)s.pick(0, 99999999), s.coin(1, 2) ? s.range(300, 312) : s.range(-330, -300));
        num = (neg ? "-" : "") + std::string(t);
      }
      kind = "range-boundary";
      break;
    }
  }
  int ctx = s.coin(3, 4) ? (int)s.index(3) : 3 + (int)s.index(3);
  c.cls("entry:" + std::string(ctx < 3 ? "Parse" : ctx < 5 ? "ParseSchema" : "ParseOnDemand"));
  size_t pad = s.coin(1, 2) ? 0 : (size_t)s.pick(0, 40);
  c.note("num", num);
  c.note("ctx", std::to_string(ctx));
  c.note("pad", std::to_string(pad));
  c.cls("class:" + kind.substr(0, kind.find(':') == std::string::npos ? kind.size() : kind.find(':')));
  if (kind.rfind("halfway", 0) == 0) c.cls(kind);
  // sanity of the generator: must be a JSON number
  {
    refjson::Result r = refjson::parse(num);
    if (!r.ok && r.fault != refjson::kNumberOverflow) c.fail("ORACLE-SELF-CHECK: generated spelling is not a JSON number: " + num);
    if (r.ok && r.value.k != MV::Uint && r.value.k != MV::Sint && r.value.k != MV::Real) c.fail("ORACLE-SELF-CHECK: not a number");
  }
  size_t sig = 0;
  for (char ch : num) {
    if (ch == 'e' || ch == 'E') break;
    if (ch >= '0' && ch <= '9') sig++;
  }
  c.nt(sig > 15 || kind != "integer");
  if (c.counting) c.desc(printable(num, 90));
  std::string m = judge(num, ctx, pad);
  if (!m.empty()) c.fail(m + " | num=" + printable(num, 900) + " ctx=" + std::to_string(ctx) + " pad=" + std::to_string(pad));
}

static void direct(const Fields& f, Case& c) {
  const std::string* num = field(f, "num");
  if (!num) c.fail("replay has no num field");
  refjson::Result r = refjson::parse(*num);
  bool is_num = (r.ok && (r.value.k == MV::Uint || r.value.k == MV::Sint || r.value.k == MV::Real)) ||
                (!r.ok && r.fault == refjson::kNumberOverflow && r.offset == 0);
  if (num->find_first_not_of("0123456789+-.eE") != std::string::npos) is_num = false;  // e.g. surrounding whitespace
  if (!is_num) return;  // not a bare number spelling: outside this harness's domain
  int ctx = field(f, "ctx") ? atoi(field(f, "ctx")->c_str()) : -1;
  size_t pad = field(f, "pad") ? (size_t)atoi(field(f, "pad")->c_str()) : 0;
  for (int k = 0; k < 12; k++) {
    if (ctx >= 0 && ctx != k % 6) continue;
    bool keep = g_daz;
    g_daz = k >= 6;
    std::string m = judge(*num, k % 6, pad);
    g_daz = keep;
    if (!m.empty() && k >= 6) m = "[with MXCSR.DAZ|FTZ set] " + m;
    if (!m.empty()) c.fail(m + " | num=" + printable(*num, 900) + " ctx=" + std::to_string(k));
  }
}

}  // namespace

#ifdef VF_FUZZ
extern "C" int LLVMFuzzerTestOneInput(const uint8_t* data, size_t size) {
  static HarnessDef def{"fz_number", "C04", nullptr, direct, nullptr, nullptr};
  return fuzz_bytes(def, data, size, "num");
}
#else
VF_HARNESS_MAIN((HarnessDef{"c04_numbers", "C04", property, direct, [] { g_daz = arg_value("daz") != nullptr; }, [](std::map<std::string, std::string>& e) {
                              e["pow10_rows_touched"] = std::to_string(g_rows.size());
                            }}))
#endif
