// C02 - Parse is total and memory-safe on arbitrary bytes for every allocator kind.
// Oracle = run-time monitors (ASan/LSan, reduced UBSan, heap fill-byte rotation through the environment,
// tracking-allocator ledger) + metamorphic checks (repeat parse gives the same outcome, the document is
// reusable after a failure and then holds exactly the valid value, outcome independent of heap perturbation).
#include <malloc.h>

#include <cstring>
#include <memory>

#include "common/genjson.hpp"
#include "common/harness.hpp"
#include "common/mutate.hpp"
#include "common/refjson.hpp"
#include "common/sonic_mv.hpp"
#include "common/track_alloc.hpp"

using namespace vf;
using namespace sonic_json;

extern "C" int __lsan_do_recoverable_leak_check(void) __attribute__((weak));
#if defined(__SANITIZE_ADDRESS__)
#define VF_ASAN 1
#elif defined(__has_feature)
#if __has_feature(address_sanitizer)
#define VF_ASAN 1
#endif
#endif

namespace {

typedef Document PoolDoc;
typedef GenericDocument<DNode<SimpleAllocator>> FreeDoc;
typedef GenericDocument<DNode<TrackingAllocator>> TrackDoc;
typedef GenericDocument<DNode<MemoryPoolAllocator<SimpleAllocator, AdaptiveChunkPolicy>>> AdaptDoc;

// a document bound to a pool that works inside a caller-supplied buffer: a heap block of exactly offset+size bytes (ASan sees
// the first byte beyond it), the buffer starting `offset` bytes into it (0..7: aligned or not)
static size_t g_ub_size = 1024, g_ub_off = 0, g_ub_fill = 0;
struct UbHolder {
  std::unique_ptr<char[]> mem;
  MemoryPoolAllocator<> pool;
  UbHolder() : mem(fresh()), pool(mem.get() + g_ub_off, g_ub_size) {}
  // the caller's buffer arrives with arbitrary old contents (g_ub_fill selects one of several hostile patterns): nothing the
  // parser does may depend on them
  static char* fresh() {
    static const char* pat[] = {"\xee", "]}", ",1", " ", "\"", ":[", "x"};
    char* m = new char[g_ub_size + g_ub_off];
    const char* p = pat[g_ub_fill % 7];
    size_t pl = strlen(p);
    for (size_t i = 0; i < g_ub_size + g_ub_off; i++) m[i] = p[i % pl];
    return m;
  }
};
struct UserBufDoc : private UbHolder, public Document {
  UserBufDoc() : UbHolder(), Document(&this->pool) {}
  UserBufDoc(UserBufDoc&& o) : UbHolder(), Document(std::move(static_cast<Document&>(o))) {}
  UserBufDoc& operator=(UserBufDoc&& o) {
    Document::operator=(std::move(static_cast<Document&>(o)));
    return *this;
  }
};

struct Out {
  bool ok = false;
  int code = 0;
  size_t off = 0;
  std::string dump;
  bool operator==(const Out& o) const { return ok == o.ok && code == o.code && off == o.off && dump == o.dump; }
  std::string show() const {
    return std::string(ok ? "ok" : "err") + " code=" + std::to_string(code) + " off=" + std::to_string(off) +
           " dump=" + printable(dump, 80);
  }
};

template <class DocT>
static Out parse_into(DocT& doc, const std::string& text) {
  // exact-size heap copy: an over-read of the caller's buffer hits an ASan redzone
  std::unique_ptr<char[]> buf(new char[text.size() ? text.size() : 1]);
  memcpy(buf.get(), text.data(), text.size());
  doc.Parse(buf.get(), text.size());
  Out o;
  o.ok = !doc.HasParseError();
  o.code = (int)doc.GetParseError();
  o.off = doc.GetErrorOffset();
  if (o.ok) {
    std::string err;
    MV m = walk(doc, &err);  // touches every node and string byte
    (void)m;
    o.dump = doc.Dump();
  }
  return o;
}

struct Failure {
  std::string msg;
};

template <class DocT>
static Out run_history(int hist, const std::string& text, const std::string& valid, const MV& valid_mv) {
  Out first;
  auto expect_valid = [&](DocT& d, const char* when) {
    if (d.HasParseError()) throw Failure{std::string("document not reusable: valid text rejected ") + when};
    std::string err;
    MV got = walk(d, &err);
    if (!err.empty() || !eq_ordered(valid_mv, got))
      throw Failure{std::string("document reused ") + when + " holds a wrong value: " + mv_diff(valid_mv, got) + err};
  };
  switch (hist) {
    case 0: {  // fresh
      DocT d;
      first = parse_into(d, text);
      break;
    }
    case 1: {  // valid first, then this input
      DocT d;
      parse_into(d, valid);
      expect_valid(d, "before the input");
      first = parse_into(d, text);
      break;
    }
    case 2: {  // the same input twice into one document
      DocT d;
      first = parse_into(d, text);
      Out second = parse_into(d, text);
      if (!(first == second)) throw Failure{"second parse of the same input differs: " + first.show() + " vs " + second.show()};
      break;
    }
    case 3: {  // input, then a valid text, then serialise
      DocT d;
      first = parse_into(d, text);
      parse_into(d, valid);
      expect_valid(d, "after the input");
      WriteBuffer wb;
      if (d.Serialize(wb) != kErrorNone) throw Failure{"document reused after the input does not serialise"};
      break;
    }
    case 4: {  // input, then move-assign from a fresh parsed document
      DocT d;
      first = parse_into(d, text);
      DocT other;
      parse_into(other, valid);
      d = std::move(other);
      expect_valid(d, "after move-assignment over the parsed input");
      break;
    }
    case 5: {  // input, then move-construct away; destroy both
      DocT d;
      first = parse_into(d, text);
      DocT moved(std::move(d));
      if (first.ok) {
        std::string err;
        (void)walk(moved, &err);
        if (moved.Dump() != first.dump) throw Failure{"move-constructed document serialises differently"};
      }
      break;
    }
    case 7: {  // valid text, ParseSchema of the valid text into it, then the input (twice): buffers of three kinds of parse in one document
      DocT d;
      parse_into(d, valid);
      d.ParseSchema(valid);
      if (d.HasParseError()) throw Failure{"ParseSchema of a valid text into its own parse failed"};
      first = parse_into(d, text);
      Out second = parse_into(d, text);
      if (!(first == second)) throw Failure{"second parse of the same input differs after a ParseSchema: " + first.show() + " vs " + second.show()};
      break;
    }
    default: {  // input, swap with another parsed document
      DocT d;
      first = parse_into(d, text);
      DocT other;
      parse_into(other, valid);
      d.Swap(other);
      expect_valid(d, "after Swap");
      if (first.ok && other.Dump() != first.dump) throw Failure{"swapped-out document serialises differently"};
      break;
    }
  }
  return first;
}

static int g_n = 0;
static const int kPerturb[] = {0, 0xf3, 0xf9, 0xf8, 0x41};  // M_PERTURB fills memory with ~v: 0x0c, 0x06, 0x07, 0xbe

static void run_all(const std::string& text, const std::string& valid, const MV& valid_mv, int kind, int hist, Case& c) {
  Out o;
  try {
    switch (kind) {
      case 0: o = run_history<PoolDoc>(hist, text, valid, valid_mv); break;
      case 1: o = run_history<FreeDoc>(hist, text, valid, valid_mv); break;
      case 2: {
        Ledger& L = ledger();
        L.reset();
        o = run_history<TrackDoc>(hist, text, valid, valid_mv);
        if (!L.errors.empty()) throw Failure{"tracking allocator: " + L.errors[0]};
        if (!L.live.empty())
          throw Failure{"tracking allocator: " + std::to_string(L.live.size()) + " block(s) (" + std::to_string(L.bytes_live) +
                        " bytes) still allocated after the document was destroyed"};
        break;
      }
      case 4: o = run_history<UserBufDoc>(hist, text, valid, valid_mv); break;
      default: o = run_history<AdaptDoc>(hist, text, valid, valid_mv); break;
    }
    if (kind == 4) {
      // the same history again with the caller's buffer pre-filled with other bytes (closers, commas, quotes, blanks ...): the
      // outcome must not depend on what lies in memory the parser has not written
      for (size_t f = 1; f < 7; f++) {
        g_ub_fill = f;
        Out o3 = run_history<UserBufDoc>(hist, text, valid, valid_mv);
        c.subevals++;
        if (!(o == o3)) {
          g_ub_fill = 0;
          throw Failure{"outcome depends on the previous contents of the caller-supplied pool buffer (fill pattern " + std::to_string(f) + "): " + o.show() + " vs " + o3.show()};
        }
      }
      g_ub_fill = 0;
    }
#if !defined(VF_ASAN)
    // production flavour: the outcome must not depend on what uninitialised heap memory contains
    {
      int pv = kPerturb[1 + (g_n % 4)];
      mallopt(M_PERTURB, pv);
      Out o2;
      switch (kind) {
        case 0: o2 = run_history<PoolDoc>(hist, text, valid, valid_mv); break;
        case 1: o2 = run_history<FreeDoc>(hist, text, valid, valid_mv); break;
        case 2: ledger().reset(); o2 = run_history<TrackDoc>(hist, text, valid, valid_mv); break;
        case 4: o2 = run_history<UserBufDoc>(hist, text, valid, valid_mv); break;
        default: o2 = run_history<AdaptDoc>(hist, text, valid, valid_mv); break;
      }
      mallopt(M_PERTURB, 0);
      c.subevals++;
      if (!(o == o2)) throw Failure{"outcome depends on heap contents (M_PERTURB " + std::to_string(pv) + "): " + o.show() + " vs " + o2.show()};
    }
#endif
  } catch (Failure& f) {
    mallopt(M_PERTURB, 0);
    c.fail(f.msg + " | kind=" + std::to_string(kind) + " history=" + std::to_string(hist) + " text=" + printable(text, 200));
  }
  // coherence (shared with C01, cheap)
  if (!o.ok && o.off > text.size()) c.fail("error offset beyond input");
  g_n++;
#ifdef VF_FUZZ
  const bool each = false;  // libFuzzer runs its own leak detection after iterations with unbalanced malloc/free
#else
  const bool each = c.replay;
#endif
  if (__lsan_do_recoverable_leak_check && (each || (c.counting && (g_n % 512) == 0))) {
    if (__lsan_do_recoverable_leak_check())
      c.fail("LeakSanitizer: memory leaked (by this case or one of the previous 512) | text=" + printable(text, 200));
  }
}

static void property(Src& s, Case& c) {
  GenOpts go;
  go.max_nodes = 4 + c.size / 2;
  go.max_depth = 8;
  go.prefer_container_root = true;
  Layout lay;
  lay.ws = (int)s.weighted({5, 4, 1});
  // a small valid companion text for the reuse histories
  GenOpts gv;
  gv.max_nodes = 8;
  gv.max_depth = 3;
  MV valid_mv = gen_value(s, gv);
  Layout plain;
  plain.ws = 0;
  std::string valid = render(s, valid_mv, plain);

  std::string text, what;
  size_t mode = s.weighted({15, 50, 20, 15, 6});
  if (mode == 4) {  // very long number spellings (the big-decimal fallback works on an 800-digit scratch buffer)
    static const int lens[] = {20, 100, 400, 500, 600, 799, 800, 801, 1000, 1500, 3000};
    std::string digits;
    size_t nd = (size_t)lens[s.index(11)];
    for (size_t i = 0; i < nd; i++) digits.push_back((char)('0' + s.pick(i == 0 ? 1 : 0, 9)));
    std::string num;
    switch (s.weighted({3, 3, 2, 2})) {
      case 0: num = "0." + std::string((size_t)s.pick(0, 400), '0') + digits; break;
      case 1: num = digits + "e-" + std::to_string(s.pick(0, 2500)); break;
      case 2: num = digits.substr(0, 1) + "." + digits.substr(1) + "e" + std::to_string(s.range(-340, 310)); break;
      default: num = digits; break;
    }
    if (s.coin(1, 4)) num = "-" + num;
    text = s.coin(1, 2) ? "{\"k\":[" + num + ",true]}" : num;
    what = "long-number";
  } else if (mode == 2) {
    text = nesting_text(s, s.coin(1, 8) ? 1000 : 60);
    what = "nesting";
    if (s.coin(1, 40)) {  // a text longer than the 64 KiB chunk cap (the private copy of the text is one pool request)
      text = "[\"" + std::string((size_t)s.pick(65400, 70000), 'x') + "\"," + text + "]";
      what = "nesting+text>64KiB";
      c.cls("text>64KiB");
    }
  } else if (mode == 3) {  // containers with many children, failure injected at some depth
    static const int counts[] = {0, 1, 15, 16, 17, 64, 300};
    int n = counts[s.index(7)];
    if (s.coin(1, 12)) {  // containers whose child table alone is a pool request around / above the 64 KiB chunk cap
      static const int big[] = {2047, 2048, 2049, 4095, 4096, 4097, 9000};
      n = big[s.index(7)];
      c.cls("wide:>=2047-children");
    }
    std::string inner;
    for (int i = 0; i < n; i++) inner += (i ? "," : "") + std::string(s.coin(1, 2) ? "1" : "\"s\"");
    int depth = s.range(1, 20);
    bool obj = s.coin(1, 2);
    for (int d = 0; d < depth; d++) text += obj ? "{\"k\":[" : "[[";
    text += inner;
    what = "wide-deep";
    static const std::vector<std::string> tails = {"", "]", "x", ",", "\"", "1e999", "\"\\q\"", "}", "]]]"};
    text += s.oneof(tails);
    if (s.coin(1, 3)) {  // close everything -> may be valid
      for (int d = 0; d < depth; d++) text += obj ? "]}" : "]]";
    }
  } else {
    MV v = gen_value(s, go);
    text = render(s, v, lay);
    what = "valid";
    if (s.coin(1, 10)) {  // maximally dense text: the parser's node stack (sized from the text length) is filled to the brim
      text = dense_text(s);
      what = "valid-dense";
      c.cls("base:dense");
    }
    if (mode == 1) {
      what = mutate_text(s, text);
      if (s.coin(1, 6)) what += "+" + mutate_text(s, text);
    }
  }
  int kind = (int)s.weighted({3, 3, 3, 1, 2});
  int hist = (int)s.index(8);
  if (kind == 4) {
    static const size_t sizes[] = {64, 128, 256, 512, 1024, 4096};
    g_ub_size = s.coin(1, 2) ? sizes[s.index(6)] : (size_t)s.pick(64, 2048);
    g_ub_off = s.coin(1, 4) ? 0 : (size_t)s.pick(1, 7);
    c.note("ubsize", std::to_string(g_ub_size));
    c.note("uboff", std::to_string(g_ub_off));
    if (g_ub_off) c.cls("user-buffer:misaligned");
  }
  c.note("text", text);
  c.note("valid", valid);
  c.note("kind", std::to_string(kind));
  c.note("hist", std::to_string(hist));
  refjson::Result r = refjson::parse(text);
  static const char* kn[] = {"pool", "freeing", "tracking", "adaptive-pool", "pool-in-user-buffer"};
  c.cls(std::string("alloc:") + kn[kind]);
  c.cls("history:" + std::to_string(hist));
  c.cls(r.ok ? "valid" : std::string("invalid@depth") + (r.depth_at_fault == 0 ? "0" : r.depth_at_fault < 4 ? "1-3" : "4+"));
  c.nt((!r.ok && (r.depth_at_fault > 0 || r.offset > 1)) || (r.ok && mv_depth(r.value) >= 2));
  if (c.counting) c.desc(std::string(kn[kind]) + "/h" + std::to_string(hist) + "/" + what + " | " + printable(text, 120));
  run_all(text, valid, valid_mv, kind, hist, c);
}

static void direct(const Fields& f, Case& c) {
  if (const std::string* rawp = field(f, "raw")) {  // libFuzzer input: first byte selects kind/history
    const std::string& raw = *rawp;
    if (raw.empty()) return;
    unsigned sel = (unsigned char)raw[0];
    static const std::string valid = "[1,{\"a\":\"b\"},\"x\"]";
    static const MV vmv = refjson::parse(valid).value;
    run_all(raw.substr(1), valid, vmv, (int)(sel % 3), (int)((sel / 4) % 8), c);
    return;
  }
  const std::string* t = field(f, "text");
  if (!t) c.fail("replay has no text field");
  std::string valid = field(f, "valid") ? *field(f, "valid") : std::string("[1,{\"a\":\"b\"}]");
  refjson::Result rv = refjson::parse(valid);
  if (!rv.ok) c.fail("ORACLE-SELF-CHECK: companion text is not valid");
  int kind = field(f, "kind") ? atoi(field(f, "kind")->c_str()) : -1;
  int hist = field(f, "hist") ? atoi(field(f, "hist")->c_str()) : -1;
  g_ub_size = field(f, "ubsize") ? (size_t)atol(field(f, "ubsize")->c_str()) : 1024;
  g_ub_off = field(f, "uboff") ? (size_t)atol(field(f, "uboff")->c_str()) % 8 : 3;
  if (g_ub_size < 64) g_ub_size = 64;
  for (int k = 0; k < 5; k++)
    for (int h = 0; h < 8; h++)
      if ((kind < 0 || kind == k) && (hist < 0 || hist == h)) run_all(*t, valid, rv.value, k, h, c);
}

}  // namespace

#ifdef VF_FUZZ
extern "C" int LLVMFuzzerTestOneInput(const uint8_t* data, size_t size) {
  static HarnessDef def{"fz_safety", "C02", nullptr, direct, nullptr, nullptr};
  return fuzz_bytes(def, data, size, "raw");
}
#else
VF_HARNESS_MAIN((HarnessDef{"c02_safety", "C02", property, direct, nullptr, nullptr}))
#endif
