// C17 - independent documents and shared read-only documents are free of data races.
// Generated thread scripts (all random choices are made on the main thread before the threads start), executed
// under ThreadSanitizer (happens-before race detection: schedule independent for the executed accesses) and
// compared after join with the single-threaded results. With -DSONIC_LOCKED_ALLOCATOR (second binary) threads
// allocate from one shared pool and must receive disjoint, intact blocks.
#include <algorithm>
#include <atomic>
#include <cstring>
#include <functional>
#include <memory>
#include <thread>

#include "common/genjson.hpp"
#include "common/harness.hpp"
#include "common/mutate.hpp"
#include "common/refjson.hpp"
#include "common/sonic_mv.hpp"
#include "sonic/experiment/lazy_update.h"

using namespace vf;
using namespace sonic_json;

namespace {

struct Barrier {
  std::atomic<int> waiting{0};
  int n;
  explicit Barrier(int k) : n(k) {}
  void arrive() {
    waiting.fetch_add(1, std::memory_order_acq_rel);
    while (waiting.load(std::memory_order_acquire) < n) std::this_thread::yield();
  }
};

// ------------------------------------------------------------------ scenario A: every thread owns its documents
struct OwnScript {
  std::vector<std::string> texts;          // texts to parse (valid and invalid)
  std::vector<std::pair<std::string, refjson::Path>> ondemand;
  std::vector<std::pair<std::string, std::string>> lazy;
  std::vector<MV> builds;                  // values to build through the mutation API
  std::string result;                      // digest of everything observable
};
static std::string run_own(const OwnScript& sc) {
  std::string out;
  Document doc;
  GenericDocument<DNode<SimpleAllocator>> fdoc;
  WriteBuffer wb;
  for (auto& t : sc.texts) {
    doc.Parse(t);
    out += doc.HasParseError() ? "E" + std::to_string((int)doc.GetParseError()) + "@" + std::to_string(doc.GetErrorOffset()) : doc.Dump();
    out += "|";
    fdoc.Parse(t);
    if (!fdoc.HasParseError()) {
      fdoc.Serialize(wb);
      out += std::to_string(wb.Size());
      if (fdoc.IsObject()) {
        fdoc.CreateMap(fdoc.GetAllocator());
        out += fdoc.HasMember("a") ? "a" : "-";
        out += fdoc["missing-key"].IsNull() ? "n" : "?";
      }
    }
    out += ";";
  }
  for (auto& od : sc.ondemand) {
    StringView target;
    ParseResult r = GetOnDemand(StringView(od.first), to_pointer(od.second), target);
    out += std::to_string((int)r.Error()) + ":" + std::string(target.data(), target.size()) + ";";
  }
  for (auto& od : sc.ondemand) {  // ParseOnDemand and ParseSchema on thread-owned documents
    Document pd;
    pd.ParseOnDemand(od.first, to_pointer(od.second));
    out += pd.HasParseError() ? "E" : pd.Dump();
    GenericDocument<DNode<SimpleAllocator>> sd;
    sd.Parse(od.first);
    if (!sd.HasParseError() && !sc.texts.empty()) {
      sd.ParseSchema(sc.texts[0]);
      out += sd.HasParseError() ? "e" : "s" + std::to_string(sd.Dump().size());
    }
    out += ";";
  }
  for (auto& lz : sc.lazy) out += UpdateLazy(lz.first, lz.second) + ";";
  for (auto& v : sc.builds) {
    Document d;
    build(d, v, d.GetAllocator(), true);
    if (d.IsObject()) {
      d.CreateMap(d.GetAllocator());
      d.RemoveMember("a");
      // the non-const operator[] hands out a reference to the null node for an absent key: writing through it touches only
      // what this thread owns, and the next absent-key lookup must see a null node again
      d["absent-key-one"].SetInt64((int64_t)out.size());
      out += d["absent-key-two"].IsNull() ? "n" : "?";
      const auto& cd = d;
      out += cd["absent-key-three"].IsNull() ? "n" : "?";
    }
    if (d.IsArray() && !d.Empty()) d.PopBack();
    Document c;
    c.CopyFrom(d, c.GetAllocator(), true);
    out += c.Dump() + (c == d ? "=" : "!") + ";";
  }
  return out;
}

// ------------------------------------------------------------------ scenario B: one shared document, const operations only
struct ReadOp {
  int kind;
  refjson::Path path;   // node the operation is applied to
  std::string key;      // for lookups
};
template <class DocT>
static std::string run_read(const DocT& doc, const MV& model, const std::vector<ReadOp>& ops) {
  typedef typename DocT::NodeType N;
  std::string out;
  for (auto& op : ops) {
    const N* n = doc.AtPointer(to_pointer(op.path));
    if (!n) { out += "null;"; continue; }
    switch (op.kind) {
      case 0: out += std::to_string((int)n->IsNull() + 2 * n->IsBool() + 4 * n->IsNumber() + 8 * n->IsString() + 16 * n->IsArray() + 32 * n->IsObject()); break;
      case 1:
        if (n->IsString()) out += std::string(n->GetStringView().data(), n->GetStringView().size());
        else if (n->IsUint64()) out += std::to_string(n->GetUint64());
        else if (n->IsInt64()) out += std::to_string(n->GetInt64());
        else if (n->IsDouble()) { double d = n->GetDouble(); uint64_t b; memcpy(&b, &d, 8); out += std::to_string(b); }
        else if (n->IsBool()) out += n->GetBool() ? "t" : "f";
        break;
      case 2:  // iteration
        if (n->IsArray()) { size_t k = 0; for (auto it = n->Begin(); it != n->End(); ++it) k += it->IsNull() ? 1 : 2; out += std::to_string(k); }
        else if (n->IsObject()) { size_t k = 0; for (auto it = n->MemberBegin(); it != n->MemberEnd(); ++it) k += it->name.Size() + 1; out += std::to_string(k); }
        break;
      case 3:  // FindMember by view, existing or missing key
        if (n->IsObject()) { auto it = n->FindMember(StringView(op.key)); out += it == n->MemberEnd() ? "-" : std::to_string(it - n->MemberBegin()); }
        break;
      case 4:  // FindMember by pointer + length
        if (n->IsObject()) { auto it = n->FindMember(op.key.data(), op.key.size()); out += it == n->MemberEnd() ? "-" : std::to_string(it - n->MemberBegin()); }
        break;
      case 5:
        if (n->IsObject()) out += n->HasMember(StringView(op.key)) ? "y" : "n";
        break;
      case 6:  // operator[] with an existing or a missing key
        if (n->IsObject()) { const N& v = (*n)[StringView(op.key)]; out += v.IsNull() ? "N" : "v" + std::to_string((int)v.GetType()); }
        break;
      case 7: { std::string s = n->Dump(); out += std::to_string(s.size()) + ":" + std::to_string(hash64(s.data(), s.size()) & 0xffff); break; }
      case 8: {  // Serialize into a thread-local buffer
        WriteBuffer wb;
        n->Serialize(wb);
        out += std::to_string(wb.Size());
        break;
      }
      case 9: {  // operator== against a thread-local copy
        Document local;
        local.CopyFrom(*n, local.GetAllocator(), true);
        out += (local == *n && *n == local) ? "=" : "!";
        break;
      }
      default: out += std::to_string(n->IsContainer() ? n->Size() : 0); break;
    }
    out += ";";
  }
  (void)model;
  return out;
}

#ifdef SONIC_LOCKED_ALLOCATOR
// ------------------------------------------------------------------ scenario C: one pool shared by all threads
struct PoolOp {
  int kind;       // 0 Malloc, 1 Realloc of own last block, 2 Realloc of an own older block, 3 parse a text on a document bound to the pool
  size_t size;
  std::string text;
};
struct OwnedBlock {
  uint8_t* p;
  size_t n;
  uint8_t pat;
};
static std::string run_pool(MemoryPoolAllocator<>& pool, const std::vector<PoolOp>& ops, int tid, std::vector<OwnedBlock>& blocks, std::string& digest) {
  Document doc(&pool);
  uint8_t pat = (uint8_t)(tid * 41 + 7);
  for (auto& op : ops) {
    switch (op.kind) {
      case 0: {
        uint8_t* p = (uint8_t*)pool.Malloc(op.size);
        if (op.size == 0) { if (p) return "Malloc(0) returned a block"; break; }
        if (!p) return "Malloc returned null";
        memset(p, pat, op.size);
        blocks.push_back(OwnedBlock{p, op.size, pat});
        break;
      }
      case 1:
      case 2: {
        if (blocks.empty()) break;
        size_t bi = op.kind == 1 ? blocks.size() - 1 : op.size % blocks.size();
        OwnedBlock b = blocks[bi];
        size_t nn = b.n + 1 + op.size % 97;
        uint8_t* p = (uint8_t*)pool.Realloc(b.p, b.n, nn);
        if (!p) return "Realloc returned null";
        for (size_t i = 0; i < b.n; i++)
          if (p[i] != b.pat) return "Realloc lost the old contents under concurrency";
        memset(p, b.pat, nn);
        blocks[bi] = OwnedBlock{p, nn, b.pat};
        break;
      }
      default: {
        doc.Parse(op.text);
        digest += doc.HasParseError() ? "E" : doc.Dump();
        digest += ";";
        break;
      }
    }
  }
  return "";
}
#endif

static int g_reps = 4;

static void property(Src& s, Case& c) {
  int nthreads = s.range(2, 8);
#ifdef SONIC_LOCKED_ALLOCATOR
  size_t scenario = s.weighted({0, 2, 5});
#else
  size_t scenario = s.weighted({5, 5, 0, 2});
#endif
  if (arg_value("scenario")) scenario = (size_t)arg_long("scenario", 0);
  c.cls(scenario == 0 ? "scenario:own-documents" : scenario == 1 ? "scenario:shared-const-document" : scenario == 2 ? "scenario:shared-locked-pool" : "scenario:borrowed-strings-next-to-foreign-writes");
  c.cls("threads:" + std::to_string(nthreads));
  GenOpts go;
  go.max_nodes = 6 + c.size / 4;
  go.max_depth = 4;
  go.prefer_container_root = true;
  static const std::vector<std::string> pool_keys = {"a", "b", "c", "key", "", "id"};
  go.key_pool = &pool_keys;
  go.dup_keys = false;
  Layout lay;
  std::string fail;
  c.nt(true);
  if (scenario == 0) {
    std::vector<OwnScript> scripts((size_t)nthreads);
    for (auto& sc : scripts) {
      int n = s.range(1, 6);
      for (int i = 0; i < n; i++) {
        MV v = gen_value(s, go);
        std::string t = render(s, v, lay);
        if (s.coin(1, 3)) mutate_text(s, t);
        sc.texts.push_back(t);
        if (s.coin(1, 2)) sc.ondemand.emplace_back(render(s, v, lay), gen_existing_path(s, v, 4));
        if (s.coin(1, 3)) sc.lazy.emplace_back(render(s, v, lay), render(s, gen_value(s, go), lay));
        if (s.coin(1, 2)) sc.builds.push_back(v);
      }
    }
    // identical scripts on several threads make the same library functions run concurrently on equal data
    if (s.coin(1, 2))
      for (size_t i = 1; i < scripts.size(); i++)
        if (s.coin(1, 2)) scripts[i] = scripts[0];
    std::vector<std::string> expect;
    for (auto& sc : scripts) expect.push_back(run_own(sc));
    if (c.counting) c.desc(std::to_string(nthreads) + " threads own documents, first text: " + printable(scripts[0].texts[0], 80));
    for (int rep = 0; rep < g_reps && fail.empty(); rep++) {
      Barrier bar(nthreads);
      std::vector<std::string> got((size_t)nthreads);
      std::vector<std::thread> th;
      for (int t = 0; t < nthreads; t++)
        th.emplace_back([&, t] {
          bar.arrive();
          got[(size_t)t] = run_own(scripts[(size_t)t]);
        });
      for (auto& x : th) x.join();
      c.subevals += (uint64_t)nthreads;
      for (int t = 0; t < nthreads; t++)
        if (got[(size_t)t] != expect[(size_t)t]) fail = "thread " + std::to_string(t) + " computed a different result than the same script run single-threaded";
    }
  } else if (scenario == 1) {
    go.max_nodes = 10 + c.size / 2;
    MV v = gen_value(s, go);
    bool with_map = s.coin(1, 2);
    bool freeing = s.coin(1, 2);
    c.cls(with_map ? "shared:with-map" : "shared:no-map");
    std::vector<std::vector<ReadOp>> scripts((size_t)nthreads);
    std::vector<refjson::Path> paths;
    all_paths(v, paths, 60);
    for (auto& sc : scripts) {
      int n = s.range(5, 40);
      for (int i = 0; i < n; i++) {
        ReadOp op;
        op.kind = (int)s.index(11);
        op.path = paths[s.index(paths.size())];
        op.key = s.coin(1, 2) ? s.oneof(pool_keys) : std::string("missing-key-") + std::to_string(s.index(3));
        sc.push_back(op);
      }
    }
    if (s.coin(1, 2))
      for (size_t i = 1; i < scripts.size(); i++) scripts[i] = scripts[0];
    bool missing = false;
    for (auto& sc : scripts)
      for (auto& op : sc) missing = missing || (op.kind == 6 && op.key.rfind("missing", 0) == 0);
    if (missing) c.cls("shared:operator[]-missing-key");
    if (c.counting) c.desc(std::to_string(nthreads) + " threads read one shared document: " + printable(refjson::write(v), 90));
    auto go_run = [&](auto& doc) {
      build(doc, v, doc.GetAllocator(), true);
      if (with_map) {
        std::function<void(typename std::remove_reference<decltype(doc)>::type::NodeType&)> mk = [&](auto& n) {
          if (n.IsObject()) { n.CreateMap(doc.GetAllocator()); for (auto it = n.MemberBegin(); it != n.MemberEnd(); ++it) mk(it->value); }
          else if (n.IsArray()) for (auto it = n.Begin(); it != n.End(); ++it) mk(*it);
        };
        mk(doc);
      }
      const auto& cdoc = doc;
      std::vector<std::string> expect;
      for (auto& sc : scripts) expect.push_back(run_read(cdoc, v, sc));
      for (int rep = 0; rep < g_reps && fail.empty(); rep++) {
        Barrier bar(nthreads);
        std::vector<std::string> got((size_t)nthreads);
        std::vector<std::thread> th;
        for (int t = 0; t < nthreads; t++)
          th.emplace_back([&, t] {
            bar.arrive();
            got[(size_t)t] = run_read(cdoc, v, scripts[(size_t)t]);
          });
        for (auto& x : th) x.join();
        c.subevals += (uint64_t)nthreads;
        for (int t = 0; t < nthreads; t++)
          if (got[(size_t)t] != expect[(size_t)t]) fail = "reader thread " + std::to_string(t) + " observed different results than the single-threaded run";
      }
    };
    if (freeing) { GenericDocument<DNode<SimpleAllocator>> d; go_run(d); }
    else { Document d; go_run(d); }
  } else if (scenario == 3) {
    // records {name bytes, counter} packed in one array: serialising threads build documents of their own whose strings BORROW
    // the name bytes (SetString(ptr,len), AddMember with copyKey=false); counting threads write the counters right behind the
    // names. Nobody writes a name, nobody but its counting thread touches a counter: a thread that only serialises its own
    // document reads nothing but names. (Scenario of C09's "never strays outside its buffers" under ThreadSanitizer.)
    struct Rec { char name[44]; uint32_t hits; };
    size_t nrec = (size_t)s.pick(2, 12);
    std::vector<Rec> recs(nrec);
    std::vector<size_t> lens(nrec);
    for (size_t i = 0; i < nrec; i++) {
      lens[i] = (size_t)s.pick(1, 44);
      for (size_t k = 0; k < 44; k++) recs[i].name[k] = (char)(k < lens[i] ? (s.coin(1, 8) ? '"' : 'a' + (int)s.index(26)) : 'Z');
      recs[i].hits = 0;
    }
    // the name ends exactly where the counter begins
    auto name_ptr = [&](size_t i) { return recs[i].name + (44 - lens[i]); };
    for (size_t i = 0; i < nrec; i++) memmove(recs[i].name + (44 - lens[i]), recs[i].name, lens[i]);
    if (c.counting) c.desc(std::to_string(nthreads) + " threads: serialise documents borrowing " + std::to_string(nrec) + " names / bump the counters behind the names");
    auto serialise = [&](int t) {
      std::string out;
      Document d;
      d.SetObject();
      for (size_t i = 0; i < nrec; i++) {
        Node v;
        v.SetString(name_ptr((i + (size_t)t) % nrec), lens[(i + (size_t)t) % nrec]);
        d.AddMember(StringView(name_ptr(i), lens[i]), std::move(v), d.GetAllocator(), false);
      }
      WriteBuffer wb;
      d.Serialize(wb);
      out.assign(wb.ToString(), wb.Size());
      return out;
    };
    std::vector<std::string> expect;
    for (int t = 0; t < nthreads; t++) expect.push_back(serialise(t));
    for (int rep = 0; rep < g_reps && fail.empty(); rep++) {
      Barrier bar(nthreads);
      std::vector<std::string> got((size_t)nthreads);
      std::vector<std::thread> th;
      for (int t = 0; t < nthreads; t++)
        th.emplace_back([&, t] {
          bar.arrive();
          if (t % 2 == 0) {
            for (int k = 0; k < 20; k++) got[(size_t)t] = serialise(t);
          } else {
            // counting thread: owns the counters i with i % (number of counting threads) == its rank
            size_t rank = (size_t)t / 2, ncount = (size_t)nthreads / 2;
            for (int k = 0; k < 200; k++)
              for (size_t i = rank; i < nrec; i += ncount) recs[i].hits++;
            got[(size_t)t] = expect[(size_t)t];
          }
        });
      for (auto& x : th) x.join();
      c.subevals += (uint64_t)nthreads;
      for (int t = 0; t < nthreads; t++)
        if (got[(size_t)t] != expect[(size_t)t]) fail = "thread " + std::to_string(t) + " serialised its own document differently while other threads wrote the memory behind the borrowed strings";
    }
  } else {
#ifdef SONIC_LOCKED_ALLOCATOR
    std::vector<std::vector<PoolOp>> scripts((size_t)nthreads);
    for (auto& sc : scripts) {
      int n = s.range(20, 400);
      for (int i = 0; i < n; i++) {
        PoolOp op;
        op.kind = (int)s.weighted({6, 3, 2, 1});
        static const size_t sz[] = {0, 1, 7, 8, 9, 24, 100, 1000, 5000, 70000};
        op.size = s.coin(1, 2) ? sz[s.index(10)] : (size_t)s.pick(1, 300);
        if (op.kind == 3) op.text = render(s, gen_value(s, go), lay);
        sc.push_back(op);
      }
    }
    if (c.counting) c.desc(std::to_string(nthreads) + " threads allocate from one locked pool, " + std::to_string(scripts[0].size()) + " ops in thread 0");
    for (int rep = 0; rep < g_reps && fail.empty(); rep++) {
      MemoryPoolAllocator<> pool(s.coin(1, 2) ? 1024 : 65536);
      std::vector<std::vector<OwnedBlock>> blocks((size_t)nthreads);
      std::vector<std::string> errs((size_t)nthreads), dig((size_t)nthreads);
      Barrier bar(nthreads);
      std::vector<std::thread> th;
      for (int t = 0; t < nthreads; t++)
        th.emplace_back([&, t] {
          bar.arrive();
          errs[(size_t)t] = run_pool(pool, scripts[(size_t)t], t, blocks[(size_t)t], dig[(size_t)t]);
        });
      for (auto& x : th) x.join();
      c.subevals += (uint64_t)nthreads;
      std::vector<OwnedBlock> all;
      for (int t = 0; t < nthreads; t++) {
        if (!errs[(size_t)t].empty()) fail = "thread " + std::to_string(t) + ": " + errs[(size_t)t];
        for (auto& b : blocks[(size_t)t]) all.push_back(b);
      }
      std::sort(all.begin(), all.end(), [](const OwnedBlock& x, const OwnedBlock& y) { return x.p < y.p; });
      for (size_t i = 0; i < all.size() && fail.empty(); i++) {
        if (((uintptr_t)all[i].p & 7) != 0) fail = "block not 8-byte aligned";
        if (i + 1 < all.size() && all[i].p + all[i].n > all[i + 1].p) fail = "two threads received overlapping blocks from the shared pool";
        for (size_t k = 0; k < all[i].n; k++)
          if (all[i].p[k] != all[i].pat) { fail = "a block handed to one thread was overwritten"; break; }
      }
      // the documents' parse results must match a single-threaded run
      for (int t = 0; t < nthreads && fail.empty(); t++) {
        std::string want;
        for (auto& op : scripts[(size_t)t])
          if (op.kind == 3) { Document d; d.Parse(op.text); want += d.HasParseError() ? "E" : d.Dump(); want += ";"; }
        if (want != dig[(size_t)t]) fail = "document bound to the shared pool parsed differently under concurrency";
      }
    }
#endif
  }
  if (!fail.empty()) c.fail(fail);
}

}  // namespace

VF_HARNESS_MAIN((HarnessDef{
#ifdef SONIC_LOCKED_ALLOCATOR
    "c17_threads_locked",
#else
    "c17_threads",
#endif
    "C17", property, nullptr, [] { g_reps = (int)arg_long("script-reps", 4); }, nullptr}))
