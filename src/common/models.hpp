// Executable models transcribed from the property statements (no sonic code involved).
#pragma once
#include "mv.hpp"

namespace vf {

// C19: ParseSchema(existing E, text T). `either_empty` is set when the statement leaves the outcome open
// (E non-empty object, T == {}: E unchanged or {} are both accepted by the callers).
inline MV merge_schema(const MV& E, const MV& T) {
  if (E.k == MV::Obj && !E.o.empty() && T.k == MV::Obj) {
    MV out = E;
    out.has_map = E.has_map;
    for (auto& kv : out.o) {
      const MV* t = T.find(kv.first);
      if (t) kv.second = merge_schema(kv.second, *t);
    }
    return out;
  }
  return T;
}

// true when somewhere a non-empty object of E meets an empty object {} of T at a matched position (underspecified)
inline bool schema_underspecified(const MV& E, const MV& T) {
  if (E.k == MV::Obj && !E.o.empty() && T.k == MV::Obj) {
    if (T.o.empty()) return true;
    for (auto& kv : E.o) {
      const MV* t = T.find(kv.first);
      if (t && schema_underspecified(kv.second, *t)) return true;
    }
  }
  return false;
}

// C20: UpdateLazy(target t, source s)
inline MV merge_lazy(const MV& t, const MV& s) {
  if (t.k == MV::Obj && !t.o.empty() && s.k == MV::Obj) {
    MV out = t;
    for (auto& kv : s.o) {
      MV* m = out.find(kv.first);
      if (m) *m = merge_lazy(*m, kv.second);
      else out.o.emplace_back(kv.first, kv.second);
    }
    return out;
  }
  return s;
}

inline void clear_maps(MV& v) {
  v.has_map = false;
  for (auto& e : v.a) clear_maps(e);
  for (auto& kv : v.o) clear_maps(kv.second);
}

}  // namespace vf
