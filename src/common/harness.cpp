#include "harness.hpp"

#include <signal.h>
#include <unistd.h>

#include <algorithm>
#include <chrono>
#include <cstdio>
#include <cstdlib>
#include <cstring>
#include <deque>
#include <fstream>
#include <sstream>
#include <unordered_set>

extern "C" void __sanitizer_set_death_callback(void (*)(void)) __attribute__((weak));
extern "C" int __lsan_do_recoverable_leak_check(void) __attribute__((weak));

namespace vf {

// ---------------------------------------------------------------- helpers
std::string hex(const std::string& s) {
  static const char* d = "0123456789abcdef";
  std::string o;
  o.reserve(s.size() * 2);
  for (unsigned char c : s) {
    o.push_back(d[c >> 4]);
    o.push_back(d[c & 15]);
  }
  return o;
}
static int hv(char c) {
  if (c >= '0' && c <= '9') return c - '0';
  if (c >= 'a' && c <= 'f') return c - 'a' + 10;
  if (c >= 'A' && c <= 'F') return c - 'A' + 10;
  return 0;
}
std::string unhex(const std::string& s) {
  std::string o;
  for (size_t i = 0; i + 1 < s.size(); i += 2) o.push_back((char)(hv(s[i]) * 16 + hv(s[i + 1])));
  return o;
}
std::string printable(const std::string& s, size_t max) {
  std::string o;
  char b[8];
  for (size_t i = 0; i < s.size(); i++) {
    if (o.size() >= max) {
      o += "...(+" + std::to_string(s.size() - i) + "B)";
      break;
    }
    unsigned char c = s[i];
    if (c == '\\') o += "\\\\";
    else if (c >= 0x20 && c < 0x7f) o.push_back((char)c);
    else {
      snprintf(b, sizeof b, "\\x%02x", c);
      o += b;
    }
  }
  return o;
}
const std::string* field(const Fields& f, const std::string& k) {
  for (auto& p : f)
    if (p.first == k) return &p.second;
  return nullptr;
}
uint64_t hash64(const void* p, size_t n, uint64_t h) {
  const unsigned char* c = (const unsigned char*)p;
  for (size_t i = 0; i < n; i++) {
    h ^= c[i];
    h *= 0x100000001b3ull;
  }
  h ^= h >> 29;
  h *= 0xBF58476D1CE4E5B9ull;
  h ^= h >> 32;
  return h;
}

static std::string jstr(const std::string& s) {
  std::string o = "\"";
  char b[8];
  for (unsigned char c : s) {
    if (c == '"') o += "\\\"";
    else if (c == '\\') o += "\\\\";
    else if (c == '\n') o += "\\n";
    else if (c < 0x20 || c >= 0x7f) {
      snprintf(b, sizeof b, "\\u%04x", c);
      o += b;
    } else o.push_back((char)c);
  }
  return o + "\"";
}

// ---------------------------------------------------------------- global state
static std::map<std::string, std::string> g_args;
static const HarnessDef* g_def = nullptr;
static Src* g_cur_src = nullptr;
static Case* g_cur_case = nullptr;
static std::string g_fail_dir = ".";
static bool g_in_replay = false;
// The last few cases this process ran before the current one (pick list + index + size). A failure that depends on state the
// library carries from one call to the next (function-local statics, thread_local scratch) does not reproduce from its own
// picks in a fresh process; the replay file therefore also carries its predecessors (see replay mode).
struct PrevCase { uint64_t index; int size; std::vector<uint64_t> picks; };
static std::deque<PrevCase> g_recent;
static const size_t kRecentMax = 6, kRecentMaxPicks = 6000;  // re-executing a saved case: a crash is reported, not saved again
static std::string g_out;
static std::string g_engine = "prng";
static uint64_t g_seed = 1;
static long g_cases = 1000;
static std::chrono::steady_clock::time_point g_t0;

struct Stats {
  uint64_t evaluations = 0, subevals = 0, nontrivial = 0, excluded = 0;
  std::map<std::string, uint64_t> classes, excluded_by;
  std::vector<std::string> samples;
  std::unordered_set<uint64_t> distinct;
  bool distinct_capped = false;
  bool capped = false, crashed = false;
  std::vector<std::pair<std::string, std::string>> failures;  // replay path, msg
};
static Stats g_st;
static const size_t kDistinctCap = 1u << 21;
static const size_t kMaxSamples = 10;

void count_class(const std::string& c, uint64_t n) { g_st.classes[c] += n; }
const char* arg_value(const char* name) {
  auto it = g_args.find(name);
  return it == g_args.end() ? nullptr : it->second.c_str();
}
long arg_long(const char* name, long d) {
  const char* v = arg_value(name);
  return v ? atol(v) : d;
}

static double elapsed() {
  return std::chrono::duration<double>(std::chrono::steady_clock::now() - g_t0).count();
}

extern "C" size_t __sanitizer_get_current_allocated_bytes() __attribute__((weak));
extern "C" size_t __sanitizer_get_heap_size() __attribute__((weak));
extern "C" size_t __sanitizer_get_free_bytes() __attribute__((weak));
static void account(const Case& c, const Src& s) {
  g_st.evaluations++;
  if ((g_st.evaluations % 20000) == 0 && getenv("VF_MEMSTAT") && __sanitizer_get_heap_size)
    fprintf(stderr, "memstat cases=%llu live=%zuMB heap=%zuMB free=%zuMB\n", (unsigned long long)g_st.evaluations,
            __sanitizer_get_current_allocated_bytes() >> 20, __sanitizer_get_heap_size() >> 20, __sanitizer_get_free_bytes() >> 20);
  g_st.subevals += c.subevals;
  for (auto& k : c.classes) g_st.classes[k]++;
  if (c.nontrivial) {
    g_st.nontrivial++;
    if (g_st.distinct.size() < kDistinctCap) {
      uint64_t h = hash64(s.log.data(), s.log.size() * 8);
      for (auto& f : c.fields) h = hash64(f.second.data(), f.second.size(), h);
      g_st.distinct.insert(h);
    } else
      g_st.distinct_capped = true;
    // sample reservoir: first few, then sparse
    if (!c.description.empty() &&
        (g_st.samples.size() < kMaxSamples / 2 ||
         (g_st.samples.size() < kMaxSamples && (g_st.nontrivial % 997) == 0)))
      g_st.samples.push_back(c.description);
  }
}

// ---------------------------------------------------------------- replay files
static bool g_last_index_valid = false;
static uint64_t g_last_index = 0;
static int g_last_size = 100;
static void write_replay(const std::string& path, const std::string& msg,
                         const std::vector<uint64_t>& picks, const Fields& fields) {
  FILE* f = fopen(path.c_str(), "w");
  if (!f) return;
  fprintf(f, "# verif replay v1\nharness=%s\nproperty=%s\n", g_def ? g_def->name : "?",
          g_def ? g_def->property_id : "?");
  std::string m = msg;
  for (auto& ch : m)
    if (ch == '\n') ch = ' ';
  fprintf(f, "msg=%s\n", m.c_str());
  fprintf(f, "picks=");
  for (size_t i = 0; i < picks.size(); i++) fprintf(f, i ? ",%llu" : "%llu", (unsigned long long)picks[i]);
  fprintf(f, "\n");
  if (g_cur_case) fprintf(f, "case=%llu:%d\n", (unsigned long long)g_cur_case->index, g_cur_case->size);
  else if (g_last_index_valid) fprintf(f, "case=%llu:%d\n", (unsigned long long)g_last_index, g_last_size);
  for (auto& pc : g_recent) {  // oldest first
    fprintf(f, "prev=%llu:%d:", (unsigned long long)pc.index, pc.size);
    for (size_t i = 0; i < pc.picks.size(); i++) fprintf(f, i ? ",%llu" : "%llu", (unsigned long long)pc.picks[i]);
    fprintf(f, "\n");
  }
  for (auto& kv : fields) {
    fprintf(f, "field.%s=%s\n", kv.first.c_str(), hex(kv.second).c_str());
    fprintf(f, "# %s ~ %s\n", kv.first.c_str(), printable(kv.second, 400).c_str());
  }
  fclose(f);
}

static std::vector<PrevCase> g_replay_prev;
static PrevCase g_replay_case{0, 100, {}};
static void parse_picks(const std::string& v, std::vector<uint64_t>& out) {
  std::stringstream ss(v);
  std::string t;
  while (std::getline(ss, t, ','))
    if (!t.empty()) out.push_back(strtoull(t.c_str(), nullptr, 10));
}
static bool read_replay(const std::string& path, std::vector<uint64_t>& picks, Fields& fields,
                        bool& has_picks) {
  std::ifstream in(path);
  if (!in) return false;
  std::string line;
  has_picks = false;
  while (std::getline(in, line)) {
    if (line.empty() || line[0] == '#') continue;
    size_t eq = line.find('=');
    if (eq == std::string::npos) continue;
    std::string k = line.substr(0, eq), v = line.substr(eq + 1);
    if (k == "picks") {
      has_picks = true;
      std::stringstream ss(v);
      std::string t;
      while (std::getline(ss, t, ','))
        if (!t.empty()) picks.push_back(strtoull(t.c_str(), nullptr, 10));
    } else if (k == "case") {
      g_replay_case.index = strtoull(v.c_str(), nullptr, 10);
      size_t c1 = v.find(':');
      if (c1 != std::string::npos) g_replay_case.size = atoi(v.c_str() + c1 + 1);
    } else if (k == "prev") {
      PrevCase pc{strtoull(v.c_str(), nullptr, 10), 100, {}};
      size_t c1 = v.find(':'), c2 = c1 == std::string::npos ? c1 : v.find(':', c1 + 1);
      if (c2 != std::string::npos) {
        pc.size = atoi(v.c_str() + c1 + 1);
        parse_picks(v.substr(c2 + 1), pc.picks);
        g_replay_prev.push_back(pc);
      }
    } else if (k.rfind("field.", 0) == 0) {
      fields.emplace_back(k.substr(6), unhex(v));
    } else if (k.rfind("text.", 0) == 0) {  // convenience: raw text field (no newlines)
      fields.emplace_back(k.substr(5), v);
    }
  }
  return true;
}

// ---------------------------------------------------------------- stats output
static void write_stats() {
  if (g_out.empty()) return;
  std::string hashfile = g_out + ".hashes";
  {
    FILE* hf = fopen(hashfile.c_str(), "wb");
    if (hf) {
      std::vector<uint64_t> v(g_st.distinct.begin(), g_st.distinct.end());
      if (!v.empty()) fwrite(v.data(), 8, v.size(), hf);
      fclose(hf);
    }
  }
  std::map<std::string, std::string> extra;
  if (g_def && g_def->extra && !g_st.crashed) g_def->extra(extra);
  std::string tmp = g_out + ".tmp";
  FILE* f = fopen(tmp.c_str(), "w");
  if (!f) return;
  fprintf(f, "{\n \"harness\": %s,\n \"property\": %s,\n \"engine\": %s,\n \"seed\": %llu,\n",
          jstr(g_def ? g_def->name : "?").c_str(), jstr(g_def ? g_def->property_id : "?").c_str(),
          jstr(g_engine).c_str(), (unsigned long long)g_seed);
  fprintf(f, " \"cases_requested\": %ld,\n \"evaluations\": %llu,\n \"subevals\": %llu,\n", g_cases,
          (unsigned long long)g_st.evaluations, (unsigned long long)g_st.subevals);
  fprintf(f, " \"nontrivial\": %llu,\n \"distinct_nontrivial\": %llu,\n \"distinct_capped\": %s,\n",
          (unsigned long long)g_st.nontrivial, (unsigned long long)g_st.distinct.size(),
          g_st.distinct_capped ? "true" : "false");
  fprintf(f, " \"excluded\": %llu,\n \"excluded_by\": {", (unsigned long long)g_st.excluded);
  bool first = true;
  for (auto& kv : g_st.excluded_by) {
    fprintf(f, "%s%s: %llu", first ? "" : ", ", jstr(kv.first).c_str(), (unsigned long long)kv.second);
    first = false;
  }
  fprintf(f, "},\n \"classes\": {");
  first = true;
  for (auto& kv : g_st.classes) {
    fprintf(f, "%s%s: %llu", first ? "" : ", ", jstr(kv.first).c_str(), (unsigned long long)kv.second);
    first = false;
  }
  fprintf(f, "},\n \"samples\": [");
  first = true;
  for (auto& s : g_st.samples) {
    fprintf(f, "%s%s", first ? "" : ", ", jstr(s).c_str());
    first = false;
  }
  fprintf(f, "],\n \"extra\": {");
  first = true;
  for (auto& kv : extra) {
    fprintf(f, "%s%s: %s", first ? "" : ", ", jstr(kv.first).c_str(), jstr(kv.second).c_str());
    first = false;
  }
  fprintf(f, "},\n \"capped\": %s,\n \"crashed\": %s,\n \"failures\": [", g_st.capped ? "true" : "false",
          g_st.crashed ? "true" : "false");
  first = true;
  for (auto& fl : g_st.failures) {
    fprintf(f, "%s{\"replay\": %s, \"msg\": %s}", first ? "" : ", ", jstr(fl.first).c_str(),
            jstr(fl.second).c_str());
    first = false;
  }
  fprintf(f, "],\n \"hash_file\": %s,\n \"wall_s\": %.3f\n}\n", jstr(hashfile).c_str(), elapsed());
  fclose(f);
  rename(tmp.c_str(), g_out.c_str());
}

// ---------------------------------------------------------------- death handling
static volatile sig_atomic_t g_dying = 0;
static long g_case_timeout = 0;
static const char* g_death_msg = "process died (sanitizer report / signal) while running this case";
static void on_death() {
  if (g_dying) return;
  g_dying = 1;
  g_st.crashed = true;
  char name[512];
  snprintf(name, sizeof name, "%s/crash-%s-%d.replay", g_fail_dir.c_str(), g_def ? g_def->name : "x",
           (int)getpid());
  if (g_in_replay) {
    fprintf(stderr, "VERIF-CRASH during replay\n");
    return;
  }
  if (g_cur_src && g_cur_case) {
    write_replay(name, g_death_msg, g_cur_src->log,
                 g_cur_case->fields);
    g_st.failures.emplace_back(name, "crash");
    fprintf(stderr, "VERIF-CRASH replay=%s\n", name);
  } else {
    g_st.failures.emplace_back("", "crash outside a case");
    fprintf(stderr, "VERIF-CRASH outside a case\n");
  }
  write_stats();
}
// Per-case watchdog (--case-timeout S, only for harnesses whose cases take microseconds): a case that has not returned after S
// seconds is saved like a crash ("did not return": self-deadlock, endless loop) and the process ends. The driver still asks for
// the usual confirmations, each of which has to run into the same limit again.
static void on_alarm(int) {
  g_death_msg = "the case did not return within the per-case time limit (self-deadlock or endless loop)";
  if (g_in_replay) {
    printf("REPLAY-FAIL %s\n", g_death_msg);
    fflush(stdout);
    _exit(1);
  }
  on_death();
  _exit(1);
}
static void on_signal(int sig) {
  on_death();
  signal(sig, SIG_DFL);
  raise(sig);
}
static void install_death_handlers() {
  if (__sanitizer_set_death_callback) __sanitizer_set_death_callback(on_death);
  static char altstack[1 << 16];
  stack_t ss;
  ss.ss_sp = altstack;
  ss.ss_size = sizeof altstack;
  ss.ss_flags = 0;
  sigaltstack(&ss, nullptr);
  struct sigaction sa;
  memset(&sa, 0, sizeof sa);
  sa.sa_handler = on_signal;
  sa.sa_flags = SA_ONSTACK | SA_NODEFER;
  if (!__sanitizer_set_death_callback) {
    sigaction(SIGSEGV, &sa, nullptr);
    sigaction(SIGBUS, &sa, nullptr);
    sigaction(SIGILL, &sa, nullptr);
    sigaction(SIGFPE, &sa, nullptr);
  }
  sigaction(SIGABRT, &sa, nullptr);
}

// ---------------------------------------------------------------- running one case
enum Outcome { PASS, FAIL, SKIP };
static Outcome run_with(Src& s, Case& c, std::string* msg) {
  g_cur_src = &s;
  g_cur_case = &c;
  if (g_case_timeout > 0) alarm((unsigned)g_case_timeout);
  Outcome o = PASS;
  try {
    g_def->property(s, c);
  } catch (Fail& f) {
    if (msg) *msg = f.msg;
    o = FAIL;
  } catch (Skip& k) {
    if (msg) *msg = k.why;
    o = SKIP;
  }
  if (g_case_timeout > 0) alarm(0);
  g_cur_src = nullptr;
  g_cur_case = nullptr;
  if (c.counting || !g_last_index_valid) {  // shrink candidates keep the identity of the case being shrunk
    g_last_index_valid = true;
    g_last_index = c.index;
    g_last_size = c.size;
  }
  if (c.counting && !g_in_replay && o != FAIL) {
    g_recent.push_back(PrevCase{c.index, c.size, s.log.size() <= kRecentMaxPicks ? s.log : std::vector<uint64_t>{}});
    if (g_recent.size() > kRecentMax) g_recent.pop_front();
  }
  return o;
}

static bool fails(const std::vector<uint64_t>& picks, std::vector<uint64_t>* canon, Fields* fields,
                  std::string* msg) {
  ReplaySrc rs(picks);
  Case c;
  c.counting = false;
  if (g_last_index_valid) {
    c.index = g_last_index;
    c.size = g_last_size;
  }
  std::string m;
  Outcome o = run_with(rs, c, &m);
  if (o != FAIL) return false;
  if (canon) *canon = rs.log;
  if (fields) *fields = c.fields;
  if (msg) *msg = m;
  return true;
}

// Pick-list shrinker (Hypothesis-style): delete chunks, zero, halve, decrement.
static void shrink(std::vector<uint64_t>& best, Fields& fields, std::string& msg, int budget = 4000) {
  std::vector<uint64_t> canon;
  if (!fails(best, &canon, &fields, &msg)) return;  // not reproducible from picks: keep as is
  best = canon;
  bool progress = true;
  // minimisation effort is bounded by executions and by wall time (affects only how small the replay gets)
  const double t_start = elapsed();
  auto spent = [&] { return elapsed() - t_start > 20.0; };
  while (progress && budget > 0 && !spent()) {
    progress = false;
    for (size_t chunk : {32, 8, 4, 2, 1}) {
      for (size_t i = 0; i + chunk <= best.size() && budget > 0 && !spent();) {
        std::vector<uint64_t> t(best.begin(), best.begin() + i);
        t.insert(t.end(), best.begin() + i + chunk, best.end());
        budget--;
        if (fails(t, &canon, &fields, &msg) && canon.size() <= best.size() && canon != best) {
          best = canon;
          progress = true;
        } else
          i++;
      }
    }
    for (size_t i = 0; i < best.size() && budget > 0 && !spent(); i++) {
      if (best[i] == 0) continue;
      for (uint64_t cand : {(uint64_t)0, best[i] / 2, best[i] - 1}) {
        if (cand >= best[i]) continue;
        std::vector<uint64_t> t = best;
        t[i] = cand;
        budget--;
        if (fails(t, &canon, &fields, &msg) && canon.size() <= best.size() && canon < best) {
          best = canon;
          progress = true;
          break;
        }
      }
    }
  }
  fails(best, &canon, &fields, &msg);  // refresh fields/msg for the final list
}

static std::string record_failure(std::vector<uint64_t> picks, Fields fields, std::string msg, bool do_shrink) {
  if (do_shrink) shrink(picks, fields, msg);
  char name[512];
  snprintf(name, sizeof name, "%s/fail-%s-s%llu-%zu.replay", g_fail_dir.c_str(), g_def->name,
           (unsigned long long)g_seed, g_st.failures.size());
  write_replay(name, msg, picks, fields);
  g_st.failures.emplace_back(name, msg);
  fprintf(stderr, "VERIF-FAIL harness=%s replay=%s msg=%s\n", g_def->name, name, msg.c_str());
  return name;
}

// ---------------------------------------------------------------- main
int verif_main(int argc, char** argv, const HarnessDef& def) {
  g_def = &def;
  g_t0 = std::chrono::steady_clock::now();
  for (int i = 1; i < argc; i++) {
    std::string a = argv[i];
    if (a.rfind("--", 0) == 0) {
      std::string k = a.substr(2);
      if (i + 1 < argc && strncmp(argv[i + 1], "--", 2) != 0) g_args[k] = argv[++i];
      else g_args[k] = "1";
    }
  }
  if (arg_value("engine")) g_engine = arg_value("engine");
  g_seed = (uint64_t)strtoull(arg_value("seed") ? arg_value("seed") : "1", nullptr, 10);
  g_cases = arg_long("cases", 1000);
  long start = arg_long("start", 0);
  double cap = arg_value("time-cap") ? atof(arg_value("time-cap")) : 1e18;
  long max_fail = arg_long("max-fail", 1);
  int max_size = (int)arg_long("max-size", 100);
  if (arg_value("fail-dir")) g_fail_dir = arg_value("fail-dir");
  if (arg_value("out")) g_out = arg_value("out");
  bool no_shrink = arg_value("no-shrink") != nullptr;
  g_case_timeout = arg_long("case-timeout", 0);
  if (g_case_timeout > 0) signal(SIGALRM, on_alarm);
  if (def.init) def.init();

  // ---- replay mode
  if (const char* rp = arg_value("replay")) {
    g_in_replay = true;
    std::vector<uint64_t> picks;
    Fields fields;
    bool has_picks = false;
    if (!read_replay(rp, picks, fields, has_picks)) {
      fprintf(stderr, "cannot read replay %s\n", rp);
      return 2;
    }
    install_death_handlers();
    g_engine = "replay";
    int reps = (int)arg_long("reps", 1);
    for (int r = 0; r < reps; r++) {
      Case c;
      c.counting = false;
      c.replay = true;
      std::string msg;
      Outcome o = PASS;
      if (!fields.empty() && def.direct && !arg_value("force-picks")) {
        ReplaySrc rs(picks);
        g_cur_src = &rs;
        g_cur_case = &c;
        c.fields = fields;
        if (g_case_timeout > 0) alarm((unsigned)g_case_timeout);
        try {
          def.direct(fields, c);
        } catch (Fail& f) {
          msg = f.msg;
          o = FAIL;
        } catch (Skip& k) {
          msg = k.why;
          o = SKIP;
        }
        g_cur_src = nullptr;
        g_cur_case = nullptr;
      } else if (has_picks) {
        ReplaySrc rs(picks);
        c.index = g_replay_case.index;
        c.size = g_replay_case.size;
        o = run_with(rs, c, &msg);
      } else {
        fprintf(stderr, "replay %s has neither usable fields nor picks\n", rp);
        return 2;
      }
      if (o == FAIL) {
        printf("REPLAY-FAIL %s\n", msg.c_str());
        fflush(stdout);
        g_dying = 1;
        _exit(1);
      }
      if (o == SKIP) {
        printf("REPLAY-SKIP %s\n", msg.c_str());
        return 3;
      }
    }
    if (has_picks && !g_replay_prev.empty() && !arg_value("no-history")) {
      // the case passes on its own: re-execute it after the cases that preceded it in the process that reported it
      // (outcomes of the predecessors are ignored: they passed there)
      for (int r = 0; r < reps; r++) {
        for (auto& pc : g_replay_prev) {
          if (pc.picks.empty()) continue;
          ReplaySrc ps(pc.picks);
          Case pcse;
          pcse.counting = false;
          pcse.index = pc.index;
          pcse.size = pc.size;
          std::string ignored;
          run_with(ps, pcse, &ignored);
        }
        ReplaySrc rs(picks);
        Case c;
        c.counting = false;
        c.replay = true;
        c.index = g_replay_case.index;
        c.size = g_replay_case.size;
        std::string msg;
        if (run_with(rs, c, &msg) == FAIL) {
          printf("REPLAY-FAIL [only after the %zu cases that preceded it in the reporting process: the library carries state from one call to the next] %s\n",
                 g_replay_prev.size(), msg.c_str());
          fflush(stdout);
          g_dying = 1;
          _exit(1);
        }
      }
    }
    if (__lsan_do_recoverable_leak_check && __lsan_do_recoverable_leak_check()) {
      printf("REPLAY-FAIL LeakSanitizer: memory leaked while replaying this case\n");
      fflush(stdout);
      g_dying = 1;
      _exit(1);
    }
    printf("REPLAY-PASS\n");
    fflush(stdout);
    g_dying = 1;
    _exit(0);
  }

  install_death_handlers();
  long nfail = 0;
  if (g_engine == "prng") {
    for (long i = start; i < start + g_cases; i++) {
      if ((i & 63) == 0 && elapsed() > cap) {
        g_st.capped = true;
        break;
      }
      PrngSrc src(g_seed, (uint64_t)i);
      Case c;
      c.index = (uint64_t)i;
      long k = i - start;
      c.size = k < 200 ? (int)(k / 2) : 100 - (int)((k * 7) % 60 == 0 ? 60 : 0);  // ramp, then mostly full size
      if (c.size > max_size) c.size = max_size;
      std::string msg;
      Outcome o = run_with(src, c, &msg);
      if (o == PASS) account(c, src);
      else if (o == SKIP) {
        g_st.excluded++;
        g_st.excluded_by[msg]++;
      } else {
        if (msg.rfind("LeakSanitizer", 0) == 0 && !c.replay) {
          // a periodic leak check fired: find the case that leaks by re-running the recent ones one by one
          // (each followed by its own leak check, which `replay` mode requests from the property)
          bool found = false;
          for (long j = std::max(start, i - 1100); j <= i && !found; j++) {
            PrngSrc s2(g_seed, (uint64_t)j);
            Case c2;
            c2.index = (uint64_t)j;
            c2.size = c.size;
            c2.counting = false;
            c2.replay = true;
            std::string m2;
            if (run_with(s2, c2, &m2) == FAIL) {
              g_last_index = c2.index;
              g_last_size = c2.size;
              record_failure(s2.log, c2.fields, m2, false);
              found = true;
            }
          }
          if (!found) record_failure(src.log, c.fields, msg, false);
        } else
          record_failure(src.log, c.fields, msg, !no_shrink);
        if (++nfail >= max_fail) break;
      }
    }
  } else if (g_engine == "rc") {
    std::vector<uint64_t> last_fail_picks;
    Fields last_fail_fields;
    std::string last_fail_msg;
    bool failed_once = false;
    double t_first_fail = 0;
    auto body = [&](Src& src, int size) {
      if (!failed_once && elapsed() > cap) {  // budget exhausted: remaining cases are no-ops
        g_st.capped = true;
        return;
      }
      // rapidcheck's shrinking is unbounded: after 25 s every further candidate "passes", which ends it with the
      // smallest failing case found so far (bounds only the minimisation effort, never the verdict)
      if (failed_once && elapsed() - t_first_fail > 25.0) return;
      Case c;
      c.index = g_st.evaluations + g_st.excluded;
      c.size = size > max_size ? max_size : size;
      c.counting = !failed_once;
      std::string msg;
      Outcome o = run_with(src, c, &msg);
      if (o == PASS) {
        if (!failed_once) account(c, src);
      } else if (o == SKIP) {
        if (!failed_once) {
          g_st.excluded++;
          g_st.excluded_by[msg]++;
        }
      } else {
        if (!failed_once) t_first_fail = elapsed();
        failed_once = true;  // rapidcheck now shrinks: the last failing run is the smallest
        last_fail_picks = src.log;
        last_fail_fields = c.fields;
        last_fail_msg = msg;
        throw Fail{msg};
      }
    };
    bool ok = rc_engine_run(body, g_seed, g_cases, max_size);
    if (!ok && failed_once) {
      record_failure(last_fail_picks, last_fail_fields, last_fail_msg, !no_shrink);
      nfail++;
    } else if (!ok) {
      g_st.failures.emplace_back("", "rapidcheck reported failure without a failing case (gave up?)");
      nfail++;
    }
  } else {
    fprintf(stderr, "unknown engine %s\n", g_engine.c_str());
    return 2;
  }
  // end-of-run leak check (only meaningful when no case failed: a failing case may legitimately leave blocks behind)
  if (nfail == 0 && __lsan_do_recoverable_leak_check && __lsan_do_recoverable_leak_check()) {
    g_st.failures.emplace_back("", "LeakSanitizer: memory leaked during this run (not attributed to a single case)");
    nfail++;
  }
  write_stats();
  fflush(stdout);
  fflush(stderr);
  g_dying = 1;          // the run is over: no crash replay from exit-time sanitizer activity
  _exit(nfail ? 1 : 0);  // skip the exit-time leak report (already done above) and static destructors
}

int fuzz_one(const HarnessDef& def, const uint8_t* data, size_t size) {
  static bool inited = false;
  if (!inited) {
    inited = true;
    g_def = &def;
    g_t0 = std::chrono::steady_clock::now();
    g_engine = "libfuzzer";
    if (const char* d = getenv("VERIF_FAIL_DIR")) g_fail_dir = d;
    if (def.init) def.init();
    if (__sanitizer_set_death_callback) __sanitizer_set_death_callback(on_death);
  }
  FuzzSrc src(data, size);
  Case c;
  c.counting = false;
  std::string msg;
  Outcome o = run_with(src, c, &msg);
  if (o == FAIL) {
    std::vector<uint64_t> picks = src.log;
    Fields fields = c.fields;
    shrink(picks, fields, msg, 1500);
    char name[512];
    snprintf(name, sizeof name, "%s/fuzzfail-%s-%d.replay", g_fail_dir.c_str(), def.name, (int)getpid());
    write_replay(name, msg, picks, fields);
    fprintf(stderr, "VERIF-FAIL harness=%s replay=%s msg=%s\n", def.name, name, msg.c_str());
    g_dying = 1;  // do not write a second (crash) replay from the death callback
    __builtin_trap();
  }
  return 0;
}


int fuzz_bytes(const HarnessDef& def, const uint8_t* data, size_t size, const char* field_name) {
  static bool inited = false;
  if (!inited) {
    inited = true;
    g_def = &def;
    g_t0 = std::chrono::steady_clock::now();
    g_engine = "libfuzzer";
    if (const char* d = getenv("VERIF_FAIL_DIR")) g_fail_dir = d;
    if (def.init) def.init();
    if (__sanitizer_set_death_callback) __sanitizer_set_death_callback(on_death);
  }
  std::vector<uint64_t> nopicks;
  ReplaySrc src(nopicks);
  Case c;
  c.counting = false;
  c.fields.emplace_back(field_name, std::string((const char*)data, size));
  g_cur_src = &src;
  g_cur_case = &c;
  std::string msg;
  bool failed = false;
  try {
    def.direct(c.fields, c);
  } catch (Fail& f) {
    msg = f.msg;
    failed = true;
  } catch (Skip&) {
  }
  g_cur_src = nullptr;
  g_cur_case = nullptr;
  if (failed) {
    char name[512];
    snprintf(name, sizeof name, "%s/fuzzfail-%s-%d.replay", g_fail_dir.c_str(), def.name, (int)getpid());
    write_replay(name, msg, nopicks, c.fields);
    fprintf(stderr, "VERIF-FAIL harness=%s replay=%s msg=%s\n", def.name, name, msg.c_str());
    g_dying = 1;
    __builtin_trap();
  }
  return 0;
}

}  // namespace vf
