// Generators (driven by Src) for model values, JSON texts with layouts, paths.
// The denoted value of every generated text is known by construction.
#pragma once
#include <string>
#include <vector>

#include "mv.hpp"
#include "refjson.hpp"
#include "src.hpp"

namespace vf {

struct GenOpts {
  int max_nodes = 40;
  int max_depth = 6;
  bool dup_keys = true;        // allow duplicate keys inside one object
  bool special_strings = true; // strings with quotes, backslashes, control bytes, high bytes, UTF-8
  bool long_strings = true;    // lengths around 16/32/64 and a few hundred bytes
  bool reals = true;
  bool big_containers = true;  // occasionally 15..33 / ~100 children
  bool prefer_container_root = false;  // root is a container 90% of the time
  const std::vector<std::string>* key_pool = nullptr;  // if set, most keys come from here
};

MV gen_value(Src& s, const GenOpts& o);
MV gen_scalar(Src& s, const GenOpts& o);
// one container holding very many small containers of its own kind (100..700; counts around 255/256/512 dense): scanners that
// count brackets while skipping a value see hundreds of them inside ONE value
MV gen_many_containers(Src& s);
MV gen_number(Src& s, bool reals);
uint64_t gen_double_bits(Src& s);  // finite
std::string gen_string(Src& s, bool specials, bool allow_long);
std::string gen_key(Src& s, const GenOpts& o);
extern const std::vector<uint64_t> kUintPool;
extern const std::vector<int64_t> kSintPool;

struct Layout {
  int ws = 1;            // 0: no whitespace, 1: light, 2: heavy (runs up to 200, > one 64-byte block)
  int pad_max = 0;       // leading pad of 0..pad_max spaces (moves every token across the block grid)
  bool escapes = true;   // spell characters with short / \uXXXX escapes at random
  bool numbers = true;   // alternative spellings of doubles
  int trailing_ws = 1;   // allow whitespace after the root
};
std::string render(Src& s, const MV& v, const Layout& l);
std::string render_string(Src& s, const std::string& bytes, bool escapes);  // with quotes
std::string render_real(Src& s, uint64_t bits, bool variants);
std::string gen_ws(Src& s, int level);

// paths
refjson::Path gen_existing_path(Src& s, const MV& root, size_t max_len = 8);
// all existing paths (up to a limit)
void all_paths(const MV& root, std::vector<refjson::Path>& out, size_t limit = 200);

}  // namespace vf
