// Guard-page arena: a run of read/write pages with PROT_NONE pages on both sides, so that a byte range can be
// placed to END on the last mapped byte (or START on the first one). Any access beyond it faults (SIGSEGV),
// which the harness runtime turns into a crash replay of the current case.
#pragma once
#include <sys/mman.h>
#include <unistd.h>

#include <cstddef>
#include <cstdint>
#include <cstdlib>
#include <cstring>

namespace vf {

class GuardArena {
 public:
  explicit GuardArena(size_t data_pages = 4) {
    page_ = (size_t)sysconf(_SC_PAGESIZE);
    n_ = data_pages;
    size_t total = (n_ + 2) * page_;
    base_ = (uint8_t*)mmap(nullptr, total, PROT_READ | PROT_WRITE, MAP_PRIVATE | MAP_ANONYMOUS, -1, 0);
    if (base_ == MAP_FAILED) abort();
    mprotect(base_, page_, PROT_NONE);
    mprotect(base_ + (n_ + 1) * page_, page_, PROT_NONE);
  }
  ~GuardArena() { munmap(base_, (n_ + 2) * page_); }
  GuardArena(const GuardArena&) = delete;
  GuardArena& operator=(const GuardArena&) = delete;
  size_t capacity() const { return n_ * page_; }
  uint8_t* lo() const { return base_ + page_; }               // first accessible byte
  uint8_t* hi() const { return base_ + (n_ + 1) * page_; }    // one past the last accessible byte
  // range of len bytes ending `slack` bytes before the upper guard page
  uint8_t* at_end(size_t len, size_t slack = 0) const { return hi() - slack - len; }
  // range starting `slack` bytes after the lower guard page
  uint8_t* at_start(size_t slack = 0) const { return lo() + slack; }
  void fill(uint8_t v) { memset(lo(), v, capacity()); }
  size_t page() const { return page_; }

 private:
  uint8_t* base_;
  size_t page_, n_;
};

}  // namespace vf
