// Tiny CLI around the reference implementation, used by selftest/oracle_crosscheck.py:
// stdin: one hex-encoded text per line; stdout: "R <fault> <offset>" or "A <canonical JSON>" per line.
#include <cstdio>
#include <iostream>
#include <string>

#include "refjson.hpp"
namespace vf { std::string unhex(const std::string&); }
static int hv(char c) { return c >= '0' && c <= '9' ? c - '0' : (c | 32) - 'a' + 10; }
int main() {
  std::string line;
  while (std::getline(std::cin, line)) {
    std::string t;
    for (size_t i = 0; i + 1 < line.size(); i += 2) t.push_back((char)(hv(line[i]) * 16 + hv(line[i + 1])));
    vf::refjson::Result r = vf::refjson::parse(t);
    if (!r.ok) printf("R %s %zu\n", vf::refjson::fault_name(r.fault), r.offset);
    else printf("A %s\n", vf::refjson::write(r.value).c_str());
  }
  return 0;
}
