// Write-buffer edge sweep: serialise [[1,1,...,10,10,...,X]] into a WriteBuffer of small fixed capacity, with the prefix chosen
// so that the space left in the buffer when X is written takes every value in [lo, hi]. The serializer reserves a fixed
// number of bytes per number; at the smallest remaining space that does not trigger a growth step, the longest spellings
// must still fit (the buffer is a heap block of exactly the rounded capacity: ASan sees the first byte beyond it).
// The root array has ONE child, so the serializer's up-front estimate (18 bytes per root child + 64) stays below `cap`.
#pragma once
#include <string>

#include "sonic/sonic.h"

namespace vf {

// set_last(node) must turn the given node into the value under test; want = its exact expected spelling.
// Returns "" or a description of the first mismatch. evals is incremented per serialisation.
template <class SetLast>
inline std::string wb_edge_sweep(SetLast set_last, const std::string& want, size_t lo, size_t hi, uint64_t& evals) {
  using namespace sonic_json;
  const size_t cap = 96;  // multiple of 8, above the up-front estimate 1*18+64
  for (size_t r = lo; r <= hi; r++) {
    // bytes written before X: "[[" + 2 per "1," + 3 per "10,"  ==  cap - r
    if (cap < r + 2) continue;
    size_t before = cap - r - 2;
    size_t tens = before % 2, ones = (before - 3 * tens) / 2;
    if (before < 3 * tens) continue;
    Document d;
    auto& a = d.GetAllocator();
    d.SetArray();
    d.PushBack(Node(kArray), a);
    Node& in = d.Back();
    std::string expect = "[[";
    for (size_t i = 0; i < ones; i++) { in.PushBack(Node(1), a); expect += "1,"; }
    for (size_t i = 0; i < tens; i++) { in.PushBack(Node(10), a); expect += "10,"; }
    Node x;
    set_last(x);
    in.PushBack(std::move(x), a);
    expect += want + "]]";
    WriteBuffer wb(cap);
    SonicError e = d.Serialize(wb);
    evals++;
    if (e != kErrorNone) return "edge sweep: Serialize failed with " + std::to_string((int)e) + " at remaining space " + std::to_string(r);
    if (std::string(wb.ToString(), wb.Size()) != expect)
      return "edge sweep: output differs when " + std::to_string(r) + " bytes are left in the write buffer: " + std::string(wb.ToString(), wb.Size());
  }
  return "";
}

}  // namespace vf
