#include "genjson.hpp"

#include <cmath>
#include <cstdio>
#include <cstdlib>
#include <cstring>

namespace vf {

const std::vector<uint64_t> kUintPool = {
    0ull, 1ull, 9ull, 10ull, 99ull, 100ull, 255ull, 65535ull, 99999999ull, 100000000ull, 4294967295ull,
    4294967296ull, 9999999999999999ull, 10000000000000000ull, 9007199254740992ull, 9007199254740993ull,
    999999999999999999ull, 1000000000000000000ull, 9223372036854775807ull, 9223372036854775808ull,
    9223372036854775809ull, 9999999999999999999ull, 10000000000000000000ull, 18446744073709551614ull,
    18446744073709551615ull};
const std::vector<int64_t> kSintPool = {-1, -9, -10, -128, -32768, -99999999, -100000000, -2147483648ll,
                                        -9007199254740993ll, -999999999999999999ll, -1000000000000000000ll,
                                        -9223372036854775807ll, (int64_t)0x8000000000000000ull};

static uint64_t dbits(double d) {
  uint64_t b;
  memcpy(&b, &d, 8);
  return b;
}
static double bitsd(uint64_t b) {
  double d;
  memcpy(&d, &b, 8);
  return d;
}

uint64_t gen_double_bits(Src& s) {
  switch (s.weighted({30, 25, 10, 10, 8, 5, 12})) {
    case 0: {  // short decimal
      char buf[64];
      int nd = s.range(1, 6);
      uint64_t m = s.pick(0, 999999);
      int e = s.range(-8, 8);
      snprintf(buf, sizeof buf, "%s%llu.%0*llue%d", s.coin(1, 4) ? "-" : "", (unsigned long long)(m % 1000), nd,
               (unsigned long long)(m / 1000 % 1000), e);
      return dbits(strtod(buf, nullptr));
    }
    case 1: {  // random finite bit pattern
      uint64_t b = s.u64();
      if (((b >> 52) & 0x7ff) == 0x7ff) b &= ~(1ull << 62);
      return b;
    }
    case 2: {  // integer-valued
      static const double v[] = {1.0, 2.0, 10.0, 100.0, 1e15, 1e16, 9007199254740992.0, 9007199254740994.0,
                                 1e21, 1e22, 1e23, 18446744073709551616.0, 9223372036854775808.0, 123456789.0};
      double d = v[s.index(sizeof v / sizeof v[0])];
      return dbits(s.coin(1, 4) ? -d : d);
    }
    case 3: {  // subnormal / tiny
      uint64_t b = s.pick(1, (1ull << 52) - 1);
      if (s.coin(1, 2)) b = 1ull << s.range(0, 51);
      return b | (s.coin(1, 4) ? (1ull << 63) : 0);
    }
    case 4: {  // boundaries
      static const uint64_t v[] = {0x7fefffffffffffffull, 0x0010000000000000ull, 0x0000000000000001ull,
                                   0x000fffffffffffffull, 0x3ff0000000000000ull, 0x3fefffffffffffffull,
                                   0x3ff0000000000001ull, 0x4340000000000000ull, 0x433fffffffffffffull,
                                   0x7fe0000000000000ull, 0x0020000000000000ull};
      if (s.coin(1, 5)) {  // the longest spellings a serializer can produce: 17 digits just above the positional/scientific switch
        static const double longest[] = {-1.2345678901234567e-06, -9.8765432109876543e-06, -1.0000000000000002e-06, -1.7976931348623157e-06};
        return dbits(longest[s.index(4)]);
      }
      return v[s.index(sizeof v / sizeof v[0])] | (s.coin(1, 4) ? (1ull << 63) : 0);
    }
    case 5: return s.coin(1, 2) ? 0ull : (1ull << 63);  // +-0
    default: {  // power of two / of ten neighbourhood
      if (s.coin(1, 2)) {
        uint64_t e = s.pick(1, 2046);
        uint64_t m = s.weighted({2, 1, 1}) == 0 ? 0 : (s.coin(1, 2) ? 1 : ((1ull << 52) - 1));
        return (e << 52) | m;
      }
      char buf[32];
      snprintf(buf, sizeof buf, "1e%d", s.range(-320, 308));
      uint64_t b = dbits(strtod(buf, nullptr));
      int delta = s.range(0, 2);
      return b + delta - (delta == 2 ? 3 : 0) * (b > 4 ? 1 : 0);
    }
  }
}

MV gen_number(Src& s, bool reals) {
  switch (s.weighted({30, 15, 15, 10, (unsigned)(reals ? 40 : 0)})) {
    case 0: return MV::uint(s.pick(0, 1000));
    case 1: return MV::uint(s.oneof(kUintPool));
    case 2: {
      int64_t v = s.coin(1, 2) ? s.oneof(kSintPool) : -(int64_t)s.pick(1, 100000);
      return MV::sint(v);
    }
    case 3: {
      uint64_t v = s.u64();
      int sh = s.range(0, 63);
      v >>= sh;
      if (s.coin(1, 3)) {
        int64_t sv = (int64_t)v;
        return MV::sint(sv > 0 ? -sv : sv);
      }
      return MV::uint(v);
    }
    default: return MV::real_bits(gen_double_bits(s));
  }
}

static void append_utf8(uint32_t cp, std::string& o) {
  if (cp <= 0x7f) o.push_back((char)cp);
  else if (cp <= 0x7ff) { o.push_back((char)(0xc0 | (cp >> 6))); o.push_back((char)(0x80 | (cp & 63))); }
  else if (cp <= 0xffff) {
    o.push_back((char)(0xe0 | (cp >> 12)));
    o.push_back((char)(0x80 | ((cp >> 6) & 63)));
    o.push_back((char)(0x80 | (cp & 63)));
  } else {
    o.push_back((char)(0xf0 | (cp >> 18)));
    o.push_back((char)(0x80 | ((cp >> 12) & 63)));
    o.push_back((char)(0x80 | ((cp >> 6) & 63)));
    o.push_back((char)(0x80 | (cp & 63)));
  }
}

std::string gen_string(Src& s, bool specials, bool allow_long) {
  size_t len;
  switch (s.weighted({10, 50, (unsigned)(allow_long ? 25 : 0), (unsigned)(allow_long ? 6 : 0)})) {
    case 0: len = 0; break;
    case 1: len = s.pick(1, 12); break;
    case 2: {
      static const int around[] = {15, 16, 17, 31, 32, 33, 47, 48, 63, 64, 65, 95, 96, 97};
      len = (size_t)around[s.index(sizeof around / sizeof around[0])];
      break;
    }
    default: len = s.pick(100, 400); break;
  }
  std::string o;
  // per-string "special density": most strings are plain, some are dense with specials
  unsigned dens = specials ? (unsigned)s.weighted({10, 6, 4, 1}) : 0;  // 0 plain, 1 sparse, 2 dense, 3 every byte needs a 6-byte escape
  if (dens == 3) {
    for (size_t i = 0; i < len; i++) {
      static const char worst[] = {0x00, 0x01, 0x0b, 0x0e, 0x1f, 0x10, 0x7f};
      o.push_back(worst[s.index(6)]);  // (0x7f excluded: index < 6) control bytes without a short escape -> \u00XX
    }
    return o;
  }
  while (o.size() < len) {
    bool sp = dens == 2 ? s.coin(1, 2) : dens == 1 ? s.coin(1, 10) : false;
    if (!sp) {
      static const char plain[] = "abcdefghijklmnopqrstuvwxyzABCDEFGHIJKLMNOPQRSTUVWXYZ0123456789_-. ";
      o.push_back(plain[s.index(sizeof plain - 1)]);
      continue;
    }
    switch (s.weighted({4, 4, 2, 5, 3, 2, 3, 4, 3})) {
      case 0: o.push_back('"'); break;
      case 1: o.push_back('\\'); break;
      case 2: o.push_back('/'); break;
      case 3: {
        static const char st[] = "[]{},:";
        o.push_back(st[s.index(6)]);
        break;
      }
      case 4: {
        static const char ct[] = "\b\f\n\r\t";
        o.push_back(ct[s.index(5)]);
        break;
      }
      case 5: o.push_back((char)s.pick(0, 0x1f)); break;
      case 6: o.push_back((char)s.pick(0x7f, 0xff)); break;
      case 7: {  // BMP code point (non-surrogate)
        uint32_t cp = (uint32_t)s.pick(0x80, 0xffff);
        if (cp >= 0xd800 && cp <= 0xdfff) cp = 0x4e2d;
        append_utf8(cp, o);
        break;
      }
      default: append_utf8((uint32_t)s.pick(0x10000, 0x10ffff), o); break;
    }
  }
  return o;
}

std::string gen_key(Src& s, const GenOpts& o) {
  if (o.key_pool && !o.key_pool->empty() && !s.coin(1, 8)) return s.oneof(*o.key_pool);
  static const std::vector<std::string> common = {"a", "b", "c", "key", "id", "", "x", "name"};
  if (s.coin(1, 3)) return s.oneof(common);
  if (s.coin(1, 8)) {
    // near-collision families: keys of one length that differ in a single interior byte (positions inside / between the
    // vector blocks and the overlapping head/tail words of the key comparison kernels); two of them in one object happen often
    static const struct { size_t len, pos; } fam[] = {{3, 1}, {5, 2}, {9, 4}, {13, 4}, {14, 5}, {15, 6}, {24, 11}, {33, 32}, {40, 20}, {66, 33}, {70, 36}, {97, 64}};
    auto f = fam[s.index(12)];
    std::string k(f.len, 'q');
    for (size_t i = 0; i < f.len; i++) k[i] = (char)('a' + i % 23);
    k[f.pos] = (char)('1' + s.index(3));
    return k;
  }
  return gen_string(s, o.special_strings, o.long_strings && s.coin(1, 4));
}

MV gen_many_containers(Src& s) {
  static const int around[] = {127, 128, 129, 254, 255, 256, 257, 258, 300, 511, 512, 513, 700};
  size_t n = s.coin(2, 3) ? (size_t)around[s.index(13)] : (size_t)s.pick(100, 700);
  bool objects = s.coin(1, 3);
  int nest = (int)s.weighted({5, 3, 1});  // 0: [x]   1: [[x]]   2: [[[x]]]
  MV out = objects ? MV::obj() : MV::arr();
  for (size_t i = 0; i < n; i++) {
    MV leaf = MV::uint(i % 10);
    MV v = leaf;
    for (int k = 0; k <= nest; k++) {
      if (objects) {
        MV w = MV::obj();
        w.o.emplace_back("k", v);
        v = w;
      } else {
        MV w = MV::arr();
        w.a.push_back(v);
        v = w;
      }
    }
    if (objects) out.o.emplace_back("m" + std::to_string(i), v);
    else out.a.push_back(v);
  }
  return out;
}

MV gen_scalar(Src& s, const GenOpts& o) {
  switch (s.weighted({10, 8, 8, 40, 34})) {
    case 0: return MV::null();
    case 1: return MV::boolean(false);
    case 2: return MV::boolean(true);
    case 3: return gen_number(s, o.reals);
    default: return MV::str(gen_string(s, o.special_strings, o.long_strings));
  }
}

static MV gen_rec(Src& s, const GenOpts& o, int depth, int& budget) {
  budget--;
  bool can_nest = depth < o.max_depth && budget > 0;
  size_t kind = (depth == 0 && o.prefer_container_root && can_nest)
                    ? s.weighted({10, 45, 45})
                    : s.weighted({45, (unsigned)(can_nest ? 28 : 6), (unsigned)(can_nest ? 27 : 6)});
  if (kind == 0) return gen_scalar(s, o);
  size_t n;
  if (!can_nest) n = 0;
  else {
    switch (s.weighted({15, 55, (unsigned)(o.big_containers ? 20 : 0), (unsigned)(o.big_containers ? 4 : 0)})) {
      case 0: n = 0; break;
      case 1: n = s.pick(1, 5); break;
      case 2: {
        static const int c[] = {7, 8, 9, 15, 16, 17, 31, 32, 33};
        n = (size_t)c[s.index(9)];
        break;
      }
      default: n = s.pick(60, 130); break;
    }
    if ((int)n > budget) n = budget > 0 ? (size_t)budget : 0;
  }
  if (kind == 1) {
    MV m = MV::arr();
    for (size_t i = 0; i < n; i++) m.a.push_back(gen_rec(s, o, depth + 1, budget));
    return m;
  }
  MV m = MV::obj();
  for (size_t i = 0; i < n; i++) {
    std::string k;
    if (o.dup_keys && i > 0 && s.coin(1, 12)) k = m.o[s.index(m.o.size())].first;
    else {
      k = gen_key(s, o);
      if (!o.dup_keys) {
        int tries = 0;
        while (m.find(k) && tries++ < 20) k += (char)('0' + (tries % 10));
        if (m.find(k)) { k += "#" + std::to_string(i); }
      }
    }
    MV v = gen_rec(s, o, depth + 1, budget);
    m.o.emplace_back(std::move(k), std::move(v));
  }
  return m;
}

MV gen_value(Src& s, const GenOpts& o) {
  int budget = o.max_nodes;
  return gen_rec(s, o, 0, budget);
}

// ------------------------------------------------------------------ rendering
std::string gen_ws(Src& s, int level) {
  if (level <= 0) return "";
  static const char w[] = " \t\n\r";
  size_t n;
  if (level == 1) {
    switch (s.weighted({70, 22, 8})) {
      case 0: return "";
      case 1: return " ";
      default: n = s.pick(2, 4); break;
    }
  } else {
    switch (s.weighted({45, 25, 15, 10, 5})) {
      case 0: return "";
      case 1: n = 1; break;
      case 2: n = s.pick(2, 10); break;
      case 3: n = s.pick(55, 75); break;  // around one 64-byte block
      default: n = s.pick(120, 200); break;
    }
  }
  std::string o;
  bool mixed = s.coin(1, 2);
  for (size_t i = 0; i < n; i++) o.push_back(mixed ? w[s.index(4)] : ' ');
  return o;
}

static int utf8_decode(const std::string& b, size_t i, uint32_t& cp) {
  unsigned char c = b[i];
  auto cont = [&](size_t k) { return k < b.size() && ((unsigned char)b[k] & 0xc0) == 0x80; };
  if (c < 0x80) { cp = c; return 1; }
  if (c >= 0xc2 && c <= 0xdf && cont(i + 1)) { cp = ((c & 0x1f) << 6) | (b[i + 1] & 0x3f); return 2; }
  if (c >= 0xe0 && c <= 0xef && cont(i + 1) && cont(i + 2)) {
    cp = ((c & 0x0f) << 12) | ((b[i + 1] & 0x3f) << 6) | (b[i + 2] & 0x3f);
    if (cp < 0x800 || (cp >= 0xd800 && cp <= 0xdfff)) return 0;
    return 3;
  }
  if (c >= 0xf0 && c <= 0xf4 && cont(i + 1) && cont(i + 2) && cont(i + 3)) {
    cp = ((c & 0x07) << 18) | ((b[i + 1] & 0x3f) << 12) | ((b[i + 2] & 0x3f) << 6) | (b[i + 3] & 0x3f);
    if (cp < 0x10000 || cp > 0x10ffff) return 0;
    return 4;
  }
  return 0;
}

static void put_u(Src& s, uint32_t v16, std::string& o) {
  static const char lo[] = "0123456789abcdef", up[] = "0123456789ABCDEF";
  o += "\\u";
  int style = (int)s.weighted({2, 2, 1});
  for (int sh = 12; sh >= 0; sh -= 4) {
    int d = (v16 >> sh) & 15;
    o.push_back(style == 0 ? lo[d] : style == 1 ? up[d] : (s.coin(1, 2) ? lo[d] : up[d]));
  }
}

std::string render_string(Src& s, const std::string& b, bool escapes) {
  std::string o = "\"";
  // escape density for this literal: 0 = only what is mandatory, 1 = sparse optional, 2 = dense
  int dens = escapes ? (int)s.weighted({5, 3, 2}) : 0;
  for (size_t i = 0; i < b.size();) {
    unsigned char c = b[i];
    uint32_t cp = 0;
    int n = utf8_decode(b, i, cp);
    bool must = c < 0x20 || c == '"' || c == '\\';
    bool opt = !must && n > 0 && dens > 0 && (dens == 2 ? s.coin(1, 3) : s.coin(1, 12));
    if (must) {
      const char* sh = nullptr;
      switch (c) {
        case '"': sh = "\\\""; break;
        case '\\': sh = "\\\\"; break;
        case '\b': sh = "\\b"; break;
        case '\f': sh = "\\f"; break;
        case '\n': sh = "\\n"; break;
        case '\r': sh = "\\r"; break;
        case '\t': sh = "\\t"; break;
      }
      if (sh && (!escapes || !s.coin(1, 4))) o += sh;
      else put_u(s, c, o);
      i++;
    } else if (opt) {
      if (cp == '/' && s.coin(1, 2)) o += "\\/";
      else if (cp < 0x10000) put_u(s, cp, o);
      else {
        uint32_t v = cp - 0x10000;
        put_u(s, 0xd800 + (v >> 10), o);
        put_u(s, 0xdc00 + (v & 0x3ff), o);
      }
      i += (size_t)n;
    } else {
      o.push_back((char)c);
      i++;
    }
  }
  o.push_back('"');
  return o;
}

static bool roundtrips(const std::string& t, uint64_t bits) {
  if (!strpbrk(t.c_str(), ".eE")) return false;
  return dbits(strtod(t.c_str(), nullptr)) == bits;
}

std::string render_real(Src& s, uint64_t bits, bool variants) {
  double d = bitsd(bits);
  char buf[1200];
  std::string base;
  if (d == 0) {
    std::string sign = (bits >> 63) ? "-" : "";
    if (!variants) return sign + "0.0";
    switch (s.weighted({4, 2, 2, 1, 1})) {
      case 0: return sign + "0.0";
      case 1: return sign + "0e0";
      case 2: return sign + "0." + std::string(s.pick(1, 40), '0');
      case 3: return sign + "0E-" + std::to_string(s.pick(0, 400));
      default: return sign + "0.0e+" + std::to_string(s.pick(0, 400));
    }
  }
  snprintf(buf, sizeof buf, "%.17g", d);
  base = buf;
  if (!strpbrk(buf, ".eE")) base += ".0";
  if (!variants) return base;
  std::string cand;
  switch (s.weighted({4, 4, 3, 2, 3, 2})) {
    case 0: return base;
    case 1: {  // shortest round-trip precision
      for (int p = 1; p <= 17; p++) {
        snprintf(buf, sizeof buf, "%.*g", p, d);
        if (dbits(strtod(buf, nullptr)) == bits) break;
      }
      cand = buf;
      if (!strpbrk(buf, ".eE")) cand += s.coin(1, 2) ? ".0" : "e0";
      break;
    }
    case 2: {  // scientific with exponent decorations
      snprintf(buf, sizeof buf, "%.*e", (int)s.pick(16, 20), d);
      cand = buf;
      size_t e = cand.find('e');
      std::string mant = cand.substr(0, e), ex = cand.substr(e + 1);
      bool neg = ex[0] == '-';
      std::string digs = ex.substr(1);
      while (digs.size() > 1 && digs[0] == '0') digs.erase(0, 1);
      if (s.coin(1, 3)) digs = std::string(s.pick(1, 3), '0') + digs;
      cand = mant + (s.coin(1, 2) ? "E" : "e") + (neg ? "-" : (s.coin(1, 2) ? "+" : "")) + digs;
      break;
    }
    case 3: {  // long mantissa (exact expansion prefix, correctly rounded by glibc)
      static const int nd[] = {19, 20, 25, 40, 100, 400, 770};
      snprintf(buf, sizeof buf, "%.*e", nd[s.index(7)], d);
      cand = buf;
      break;
    }
    case 4: {  // integer mantissa + shifted exponent, or leading 0.000 form
      int p = (int)s.pick(16, 18);
      snprintf(buf, sizeof buf, "%.*e", p, d);
      std::string t = buf;
      size_t e = t.find('e');
      int ex = atoi(t.c_str() + e + 1);
      std::string mant = t.substr(0, e);
      std::string sign;
      if (mant[0] == '-') { sign = "-"; mant.erase(0, 1); }
      std::string digs = mant.substr(0, 1) + mant.substr(2);
      if (s.coin(1, 2)) {
        size_t first = digs.find_first_not_of('0');
        std::string dd = first == std::string::npos ? "0" : digs.substr(first);
        cand = sign + dd + "e" + std::to_string(ex - (int)(digs.size() - 1));
      } else {
        int z = (int)s.pick(0, 30);
        cand = sign + "0." + std::string((size_t)z, '0') + digs + "e" + std::to_string(ex + 1 + z);
      }
      break;
    }
    default: {  // trailing fraction zeros
      cand = base;
      size_t e = cand.find_first_of("eE");
      std::string m = e == std::string::npos ? cand : cand.substr(0, e);
      std::string x = e == std::string::npos ? "" : cand.substr(e);
      if (m.find('.') == std::string::npos) m += ".";
      m += std::string(s.pick(1, 30), '0');
      cand = m + x;
      break;
    }
  }
  if (roundtrips(cand, bits)) return cand;
  return base;
}

static void render_rec(Src& s, const MV& v, const Layout& l, std::string& o) {
  switch (v.k) {
    case MV::Null: o += "null"; break;
    case MV::False: o += "false"; break;
    case MV::True: o += "true"; break;
    case MV::Uint: case MV::Sint: refjson::write_number(v, o); break;
    case MV::Real: o += render_real(s, v.u, l.numbers); break;
    case MV::Str: o += render_string(s, v.s, l.escapes); break;
    case MV::Arr:
      o.push_back('[');
      o += gen_ws(s, l.ws);
      for (size_t i = 0; i < v.a.size(); i++) {
        if (i) { o.push_back(','); o += gen_ws(s, l.ws); }
        render_rec(s, v.a[i], l, o);
        o += gen_ws(s, l.ws);
      }
      o.push_back(']');
      break;
    case MV::Obj:
      o.push_back('{');
      o += gen_ws(s, l.ws);
      for (size_t i = 0; i < v.o.size(); i++) {
        if (i) { o.push_back(','); o += gen_ws(s, l.ws); }
        o += render_string(s, v.o[i].first, l.escapes);
        o += gen_ws(s, l.ws);
        o.push_back(':');
        o += gen_ws(s, l.ws);
        render_rec(s, v.o[i].second, l, o);
        o += gen_ws(s, l.ws);
      }
      o.push_back('}');
      break;
  }
}

std::string render(Src& s, const MV& v, const Layout& l) {
  std::string o;
  if (l.pad_max > 0) o.assign((size_t)s.pick(0, (uint64_t)l.pad_max), ' ');
  render_rec(s, v, l, o);
  if (l.trailing_ws) o += gen_ws(s, l.ws);
  return o;
}

refjson::Path gen_existing_path(Src& s, const MV& root, size_t max_len) {
  refjson::Path p;
  const MV* cur = &root;
  while (p.size() < max_len) {
    if (cur->k == MV::Arr && !cur->a.empty()) {
      if (!p.empty() && s.coin(1, 6)) break;
      size_t i = s.index(cur->a.size());
      p.push_back(refjson::Step::I((long)i));
      cur = &cur->a[i];
    } else if (cur->k == MV::Obj && !cur->o.empty()) {
      if (!p.empty() && s.coin(1, 6)) break;
      size_t i = s.index(cur->o.size());
      p.push_back(refjson::Step::K(cur->o[i].first));
      cur = cur->find(cur->o[i].first);  // first match semantics
    } else
      break;
  }
  return p;
}

static void all_paths_rec(const MV& v, refjson::Path& cur, std::vector<refjson::Path>& out, size_t limit) {
  if (out.size() >= limit) return;
  out.push_back(cur);
  if (v.k == MV::Arr) {
    for (size_t i = 0; i < v.a.size() && out.size() < limit; i++) {
      cur.push_back(refjson::Step::I((long)i));
      all_paths_rec(v.a[i], cur, out, limit);
      cur.pop_back();
    }
  } else if (v.k == MV::Obj) {
    for (size_t i = 0; i < v.o.size() && out.size() < limit; i++) {
      bool dup = false;
      for (size_t j = 0; j < i; j++) dup = dup || v.o[j].first == v.o[i].first;
      if (dup) continue;  // only the first match is addressable
      cur.push_back(refjson::Step::K(v.o[i].first));
      all_paths_rec(v.o[i].second, cur, out, limit);
      cur.pop_back();
    }
  }
}
void all_paths(const MV& root, std::vector<refjson::Path>& out, size_t limit) {
  refjson::Path cur;
  all_paths_rec(root, cur, out, limit);
}

}  // namespace vf
