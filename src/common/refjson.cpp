#include "refjson.hpp"

#include <cmath>
#include <cstdio>
#include <cstdlib>

namespace vf {

std::string mv_show(const MV& x, size_t max) {
  std::string o;
  struct W {
    static void go(const MV& v, std::string& o, size_t max) {
      if (o.size() > max) return;
      char b[64];
      switch (v.k) {
        case MV::Null: o += "null"; break;
        case MV::False: o += "false"; break;
        case MV::True: o += "true"; break;
        case MV::Uint: snprintf(b, sizeof b, "u%llu", (unsigned long long)v.u); o += b; break;
        case MV::Sint: snprintf(b, sizeof b, "i%lld", (long long)v.u); o += b; break;
        case MV::Real: snprintf(b, sizeof b, "d%.17g(%016llx)", v.dbl(), (unsigned long long)v.u); o += b; break;
        case MV::Str: {
          o += '"';
          for (unsigned char c : v.s) {
            if (c >= 0x20 && c < 0x7f && c != '"' && c != '\\') o.push_back((char)c);
            else { snprintf(b, sizeof b, "\\x%02x", c); o += b; }
            if (o.size() > max) break;
          }
          o += '"';
          break;
        }
        case MV::Arr:
          o += '[';
          for (size_t i = 0; i < v.a.size(); i++) { if (i) o += ','; go(v.a[i], o, max); }
          o += ']';
          break;
        case MV::Obj:
          o += '{';
          for (size_t i = 0; i < v.o.size(); i++) {
            if (i) o += ',';
            go(MV::str(v.o[i].first), o, max);
            o += ':';
            go(v.o[i].second, o, max);
          }
          o += '}';
          break;
      }
    }
  };
  W::go(x, o, max);
  if (o.size() > max) { o.resize(max); o += "..."; }
  return o;
}

static bool diff_rec(const MV& x, const MV& y, std::string& path, std::string& out) {
  if (x.k == y.k && x.k == MV::Arr && x.a.size() == y.a.size()) {
    for (size_t i = 0; i < x.a.size(); i++) {
      size_t n = path.size();
      path += "/" + std::to_string(i);
      if (diff_rec(x.a[i], y.a[i], path, out)) return true;
      path.resize(n);
    }
    return false;
  }
  if (x.k == y.k && x.k == MV::Obj && x.o.size() == y.o.size()) {
    for (size_t i = 0; i < x.o.size(); i++) {
      size_t n = path.size();
      path += "/#" + std::to_string(i);
      if (x.o[i].first != y.o[i].first) {
        out = path + " key: " + mv_show(MV::str(x.o[i].first), 200) + " vs " + mv_show(MV::str(y.o[i].first), 200);
        return true;
      }
      if (diff_rec(x.o[i].second, y.o[i].second, path, out)) return true;
      path.resize(n);
    }
    return false;
  }
  if (eq_ordered(x, y)) return false;
  out = (path.empty() ? std::string("(root)") : path) + ": " + mv_show(x, 200) + " vs " + mv_show(y, 200);
  return true;
}
std::string mv_diff(const MV& x, const MV& y) {
  std::string path, out;
  diff_rec(x, y, path, out);
  return out;
}

namespace refjson {

const char* fault_name(Fault f) {
  switch (f) {
    case kNone: return "none";
    case kTruncated: return "truncated";
    case kStructural: return "structural";
    case kCtrlInString: return "ctrl-in-string";
    case kBadEscape: return "bad-escape";
    case kBadUnicodeHex: return "bad-unicode-hex";
    case kNumberOverflow: return "number-overflow";
    case kDepth: return "depth";
  }
  return "?";
}

static int hexval(unsigned char c) {
  if (c >= '0' && c <= '9') return c - '0';
  if (c >= 'a' && c <= 'f') return c - 'a' + 10;
  if (c >= 'A' && c <= 'F') return c - 'A' + 10;
  return -1;
}
static void put_utf8(uint32_t cp, std::string& o) {
  if (cp <= 0x7f) o.push_back((char)cp);
  else if (cp <= 0x7ff) { o.push_back((char)(0xc0 | (cp >> 6))); o.push_back((char)(0x80 | (cp & 63))); }
  else if (cp <= 0xffff) {
    o.push_back((char)(0xe0 | (cp >> 12)));
    o.push_back((char)(0x80 | ((cp >> 6) & 63)));
    o.push_back((char)(0x80 | (cp & 63)));
  } else {
    o.push_back((char)(0xf0 | (cp >> 18)));
    o.push_back((char)(0x80 | ((cp >> 12) & 63)));
    o.push_back((char)(0x80 | ((cp >> 6) & 63)));
    o.push_back((char)(0x80 | (cp & 63)));
  }
}

// read 4 hex digits at p[0..3] (bounded by n); -1 if malformed
static long hex4(const char* p, size_t n) {
  if (n < 4) return -1;
  long v = 0;
  for (int i = 0; i < 4; i++) {
    int h = hexval((unsigned char)p[i]);
    if (h < 0) return -1;
    v = v * 16 + h;
  }
  return v;
}

static bool all_hex(const char* p, size_t n) {
  for (size_t i = 0; i < n; i++)
    if (hexval((unsigned char)p[i]) < 0) return false;
  return true;
}

Fault unescape(const char* p, size_t n, std::string& out, bool* bad_surrogate, size_t* fault_off,
               bool open_ended) {
  out.clear();
  size_t i = 0;
  auto fail = [&](Fault f, size_t at) {
    if (fault_off) *fault_off = at;
    return f;
  };
  while (i < n) {
    unsigned char c = (unsigned char)p[i];
    if (c < 0x20) return fail(kCtrlInString, i);
    if (c != '\\') { out.push_back((char)c); i++; continue; }
    if (i + 1 >= n) return fail(kTruncated, n);
    unsigned char e = (unsigned char)p[i + 1];
    switch (e) {
      case '"': out.push_back('"'); i += 2; break;
      case '\\': out.push_back('\\'); i += 2; break;
      case '/': out.push_back('/'); i += 2; break;
      case 'b': out.push_back('\b'); i += 2; break;
      case 'f': out.push_back('\f'); i += 2; break;
      case 'n': out.push_back('\n'); i += 2; break;
      case 'r': out.push_back('\r'); i += 2; break;
      case 't': out.push_back('\t'); i += 2; break;
      case 'u': {
        long v = hex4(p + i + 2, n - (i + 2));
        if (v < 0) {
          if (open_ended && n - (i + 2) < 4 && all_hex(p + i + 2, n - (i + 2))) return fail(kTruncated, n);
          return fail(kBadUnicodeHex, i);
        }
        i += 6;
        if (v >= 0xd800 && v <= 0xdbff) {
          // high surrogate: must be followed by \uDC00..\uDFFF
          long lo = -1;
          if (i + 1 < n && p[i] == '\\' && p[i + 1] == 'u') {
            lo = hex4(p + i + 2, n - (i + 2));
            if (lo < 0) {
              if (open_ended && n - (i + 2) < 4 && all_hex(p + i + 2, n - (i + 2))) return fail(kTruncated, n);
              return fail(kBadUnicodeHex, i);
            }
          }
          if (lo >= 0xdc00 && lo <= 0xdfff) {
            put_utf8(0x10000 + (((uint32_t)v - 0xd800) << 10) + ((uint32_t)lo - 0xdc00), out);
            i += 6;
          } else {
            if (bad_surrogate) *bad_surrogate = true;
            put_utf8((uint32_t)v, out);  // lenient decoding; the following escape (if any) is handled next
          }
        } else if (v >= 0xdc00 && v <= 0xdfff) {
          if (bad_surrogate) *bad_surrogate = true;
          put_utf8((uint32_t)v, out);
        } else {
          put_utf8((uint32_t)v, out);
        }
        break;
      }
      default: return fail(kBadEscape, i);
    }
  }
  return kNone;
}

int fault_kinds(const char* p, size_t n) {
  bool ctrl = false, esc = false, uni = false, sur = false;
  for (size_t k = 0; k < n; k++) {
    unsigned char c = (unsigned char)p[k];
    if (c < 0x20) ctrl = true;
    if (c != '\\') continue;
    if (k + 1 >= n) { esc = true; break; }
    unsigned char x = (unsigned char)p[k + 1];
    if (x == 'u') {
      long v = hex4(p + k + 2, n - (k + 2));
      if (v < 0) { uni = true; k += 1; continue; }
      if (v >= 0xd800 && v <= 0xdbff) {
        long lo = -1;
        if (k + 7 < n && p[k + 6] == '\\' && p[k + 7] == 'u') lo = hex4(p + k + 8, n - (k + 8));
        if (lo >= 0xdc00 && lo <= 0xdfff) { k += 11; continue; }
        sur = true;
      } else if (v >= 0xdc00 && v <= 0xdfff)
        sur = true;
      k += 5;
    } else {
      if (!strchr("\"\\/bfnrt", x) || x == 0) {
        esc = true;
        if (x < 0x20) ctrl = true;
      }
      k += 1;
    }
  }
  return (int)ctrl + (int)esc + (int)uni + (int)sur;
}

bool number_value(const std::string& num, MV& out) {
  const char* s = num.c_str();
  bool neg = s[0] == '-';
  size_t i = neg ? 1 : 0;
  bool is_int = num.find_first_of(".eE") == std::string::npos;
  if (is_int) {
    // exact integer if it fits
    unsigned __int128 acc = 0;
    bool big = false;
    for (size_t j = i; j < num.size(); j++) {
      acc = acc * 10 + (unsigned)(s[j] - '0');
      if (acc > ((unsigned __int128)1 << 70)) { big = true; break; }
    }
    if (!big) {
      if (!neg && acc <= (unsigned __int128)0xFFFFFFFFFFFFFFFFull) {
        out = MV::uint((uint64_t)acc);
        return true;
      }
      if (neg && acc <= ((unsigned __int128)1 << 63)) {
        if (acc == 0) { out = MV::uint(0); out.negzero = true; return true; }
        out = MV();
        out.k = MV::Sint;
        out.u = (uint64_t)0 - (uint64_t)acc;
        return true;
      }
    }
  }
  char* end = nullptr;
  double d = strtod(s, &end);
  if (std::isinf(d)) return false;
  out = MV::real(d);
  return true;
}

namespace {
struct P {
  const std::string& t;
  size_t i = 0;
  Result& r;
  size_t depth = 0;
  P(const std::string& text, Result& res) : t(text), r(res) {}
  bool fail(Fault f, size_t at, bool in_string = false) {
    r.ok = false;
    r.fault = f;
    r.offset = at;
    r.fault_in_string = in_string;
    r.depth_at_fault = depth;
    return false;
  }
  void ws() {
    while (i < t.size() && (t[i] == ' ' || t[i] == '\t' || t[i] == '\n' || t[i] == '\r')) i++;
  }
  bool string(std::string& out) {
    // t[i] == '"'
    size_t start = i + 1;
    size_t j = start;
    // find the closing quote (unescaped)
    while (true) {
      if (j >= t.size()) {
        // truncated literal; but report an earlier in-literal fault first if any
        size_t off = 0;
        bool bs = false;
        Fault f = unescape(t.data() + start, t.size() - start, out, &bs, &off, true);
        if (bs) r.bad_surrogate = true;
        if (f != kNone && f != kTruncated) {
          note_other_faults(start, t.size(), f);
          return fail(f, start + off, true);
        }
        return fail(kTruncated, t.size(), true);
      }
      if (t[j] == '\\') { j += 2; continue; }
      if (t[j] == '"') break;
      j++;
    }
    size_t off = 0;
    bool bs = false;
    Fault f = unescape(t.data() + start, j - start, out, &bs, &off);
    if (bs) r.bad_surrogate = true;
    if (f != kNone) {
      note_other_faults(start, j, f);
      return fail(f, start + off, true);
    }
    i = j + 1;
    return true;
  }
  // count fault kinds present anywhere in the literal body [b,e) besides `first`
  void note_other_faults(size_t b, size_t e, Fault first) {
    bool ctrl = false, esc = false, uni = false;
    for (size_t k = b; k < e && k < t.size(); k++) {
      unsigned char c = (unsigned char)t[k];
      if (c < 0x20) ctrl = true;
      if (c == '\\') {
        if (k + 1 >= e) break;
        unsigned char x = (unsigned char)t[k + 1];
        if (x == 'u') {
          if (hex4(t.data() + k + 2, e - (k + 2)) < 0) uni = true;
          k += 1;
        } else if (!strchr("\"\\/bfnrt", x) || x == 0) {
          esc = true;
          if (x < 0x20) ctrl = true;  // the byte after the backslash is itself a raw control byte
          k += 1;
        } else
          k += 1;
      }
    }
    int kinds = (int)ctrl + (int)esc + (int)uni;
    (void)first;
    r.faults_in_that_string = kinds;
  }
  bool number(MV& out) {
    size_t s = i;
    if (i < t.size() && t[i] == '-') i++;
    if (i >= t.size()) return fail(kTruncated, t.size());
    if (t[i] == '0') i++;
    else if (t[i] >= '1' && t[i] <= '9') {
      while (i < t.size() && t[i] >= '0' && t[i] <= '9') i++;
    } else
      return fail(kStructural, i);
    if (i < t.size() && t[i] == '.') {
      i++;
      if (i >= t.size()) return fail(kTruncated, t.size());
      if (!(t[i] >= '0' && t[i] <= '9')) return fail(kStructural, i);
      while (i < t.size() && t[i] >= '0' && t[i] <= '9') i++;
    }
    if (i < t.size() && (t[i] == 'e' || t[i] == 'E')) {
      i++;
      if (i < t.size() && (t[i] == '+' || t[i] == '-')) i++;
      if (i >= t.size()) return fail(kTruncated, t.size());
      if (!(t[i] >= '0' && t[i] <= '9')) return fail(kStructural, i);
      while (i < t.size() && t[i] >= '0' && t[i] <= '9') i++;
    }
    if (!number_value(t.substr(s, i - s), out)) return fail(kNumberOverflow, s);
    return true;
  }
  bool literal(const char* w, MV v, MV& out) {
    size_t n = strlen(w);
    for (size_t k = 0; k < n; k++) {
      if (i + k >= t.size()) return fail(kTruncated, t.size());
      if (t[i + k] != w[k]) return fail(kStructural, i + k);
    }
    i += n;
    out = v;
    return true;
  }
  bool value(MV& out) {
    ws();
    if (i >= t.size()) return fail(kTruncated, t.size());
    char c = t[i];
    if (c == '{') {
      if (depth > 200000) return fail(kDepth, i);
      depth++;
      out = MV::obj();
      i++;
      ws();
      if (i < t.size() && t[i] == '}') { i++; depth--; return true; }
      while (true) {
        ws();
        if (i >= t.size()) return fail(kTruncated, t.size());
        if (t[i] != '"') return fail(kStructural, i);
        std::string key;
        if (!string(key)) return false;
        ws();
        if (i >= t.size()) return fail(kTruncated, t.size());
        if (t[i] != ':') return fail(kStructural, i);
        i++;
        MV v;
        if (!value(v)) return false;
        out.o.emplace_back(std::move(key), std::move(v));
        ws();
        if (i >= t.size()) return fail(kTruncated, t.size());
        if (t[i] == ',') { i++; continue; }
        if (t[i] == '}') { i++; depth--; return true; }
        return fail(kStructural, i);
      }
    }
    if (c == '[') {
      if (depth > 200000) return fail(kDepth, i);
      depth++;
      out = MV::arr();
      i++;
      ws();
      if (i < t.size() && t[i] == ']') { i++; depth--; return true; }
      while (true) {
        MV v;
        if (!value(v)) return false;
        out.a.push_back(std::move(v));
        ws();
        if (i >= t.size()) return fail(kTruncated, t.size());
        if (t[i] == ',') { i++; continue; }
        if (t[i] == ']') { i++; depth--; return true; }
        return fail(kStructural, i);
      }
    }
    if (c == '"') {
      out = MV::str("");
      return string(out.s);
    }
    if (c == 't') return literal("true", MV::boolean(true), out);
    if (c == 'f') return literal("false", MV::boolean(false), out);
    if (c == 'n') return literal("null", MV::null(), out);
    if (c == '-' || (c >= '0' && c <= '9')) return number(out);
    return fail(kStructural, i);
  }
};
}  // namespace

// NB: value() recurses; callers keep nesting <= ~10k (we run with an enlarged stack where needed)
Result parse(const std::string& text) {
  Result r;
  P p(text, r);
  r.ok = true;
  if (!p.value(r.value)) {
    r.ok = false;
    return r;
  }
  p.ws();
  if (p.i != text.size()) {
    p.fail(kStructural, p.i);
    return r;
  }
  r.ok = true;
  r.offset = text.size();
  return r;
}

void write_string(const std::string& s, std::string& out) {
  out.push_back('"');
  char b[8];
  for (unsigned char c : s) {
    if (c == '"') out += "\\\"";
    else if (c == '\\') out += "\\\\";
    else if (c < 0x20) { snprintf(b, sizeof b, "\\u%04x", c); out += b; }
    else out.push_back((char)c);
  }
  out.push_back('"');
}

void write_number(const MV& v, std::string& out) {
  char b[64];
  if (v.k == MV::Uint) snprintf(b, sizeof b, "%llu", (unsigned long long)v.u);
  else if (v.k == MV::Sint) snprintf(b, sizeof b, "%lld", (long long)v.u);
  else {
    snprintf(b, sizeof b, "%.17g", v.dbl());
    if (!strpbrk(b, ".eE")) strcat(b, ".0");
  }
  out += b;
}

static void write_rec(const MV& v, std::string& out) {
  switch (v.k) {
    case MV::Null: out += "null"; break;
    case MV::False: out += "false"; break;
    case MV::True: out += "true"; break;
    case MV::Uint: case MV::Sint: case MV::Real: write_number(v, out); break;
    case MV::Str: write_string(v.s, out); break;
    case MV::Arr:
      out.push_back('[');
      for (size_t i = 0; i < v.a.size(); i++) { if (i) out.push_back(','); write_rec(v.a[i], out); }
      out.push_back(']');
      break;
    case MV::Obj:
      out.push_back('{');
      for (size_t i = 0; i < v.o.size(); i++) {
        if (i) out.push_back(',');
        write_string(v.o[i].first, out);
        out.push_back(':');
        write_rec(v.o[i].second, out);
      }
      out.push_back('}');
      break;
  }
}
std::string write(const MV& v) {
  std::string o;
  write_rec(v, o);
  return o;
}

const MV* resolve(const MV& root, const Path& p) {
  const MV* cur = &root;
  for (auto& st : p) {
    if (st.is_key) {
      if (cur->k != MV::Obj) return nullptr;
      const MV* n = cur->find(st.key);
      if (!n) return nullptr;
      cur = n;
    } else {
      if (cur->k != MV::Arr) return nullptr;
      if (st.idx < 0 || (size_t)st.idx >= cur->a.size()) return nullptr;
      cur = &cur->a[(size_t)st.idx];
    }
  }
  return cur;
}

std::string path_show(const Path& p) {
  std::string o;
  for (auto& st : p) {
    o += '/';
    if (st.is_key) o += "\"" + st.key + "\"";
    else o += std::to_string(st.idx);
  }
  return o.empty() ? "(root)" : o;
}

}  // namespace refjson
}  // namespace vf
