// Tracking allocator (sonic "Allocator" concept, kNeedFree = true) with a global ledger.
// Detects: foreign free, double free, leaks; poisons freed blocks; Realloc always moves.
// Real memory still comes from malloc so ASan/LSan keep watching every access.
#pragma once
#include <cstdint>
#include <cstdlib>
#include <cstring>
#include <string>
#include <unordered_map>
#include <vector>

namespace vf {

struct Ledger {
  struct Info {
    size_t size;
    uint64_t serial;
  };
  std::unordered_map<void*, Info> live;
  uint64_t serial = 0, n_alloc = 0, n_free = 0, bytes_live = 0;
  std::vector<std::string> errors;
  int fail_budget = 0;     // allocation failure injection: the next `fail_budget` requests are refused
  uint64_t refusals = 0;
  void reset() {
    // forget everything; blocks that a previous (failing) case left behind are released for real so that they do not
    // show up as leaks of a later case
    for (auto& kv : live) std::free(kv.first);
    live.clear();
    errors.clear();
    serial = n_alloc = n_free = bytes_live = 0;
    fail_budget = 0;
    refusals = 0;
  }
  void* alloc(size_t n) {
    if (n == 0) return nullptr;
    if (fail_budget > 0) {
      fail_budget--;
      refusals++;
      return nullptr;
    }
    void* p = std::malloc(n);
    if (!p) return nullptr;
    std::memset(p, 0xA5, n);  // uninitialised-looking, deterministic
    live[p] = Info{n, ++serial};
    n_alloc++;
    bytes_live += n;
    return p;
  }
  void release(void* p) {
    if (!p) return;
    auto it = live.find(p);
    if (it == live.end()) {
      char b[96];
      snprintf(b, sizeof b, "free of a block the allocator does not own (foreign or double free): %p", p);
      errors.push_back(b);
      return;  // do not pass it on: keeps the process alive so the case can be reported and shrunk
    }
    std::memset(p, 0xDD, it->second.size);
    bytes_live -= it->second.size;
    live.erase(it);
    n_free++;
    std::free(p);
  }
  size_t size_of(void* p) const {
    auto it = live.find(p);
    return it == live.end() ? (size_t)-1 : it->second.size;
  }
};

inline Ledger& ledger() {
  static Ledger l;
  return l;
}

class TrackingAllocator {
 public:
  void* Malloc(size_t size) { return ledger().alloc(size); }
  void* Realloc(void* old_ptr, size_t old_size, size_t new_size) {
    Ledger& L = ledger();
    if (new_size == 0) {
      L.release(old_ptr);
      return nullptr;
    }
    if (!old_ptr) return L.alloc(new_size);
    size_t have = L.size_of(old_ptr);
    if (have == (size_t)-1) {
      L.errors.push_back("Realloc of a block the allocator does not own");
      return L.alloc(new_size);
    }
    if (old_size > have) L.errors.push_back("Realloc called with old_size larger than the block");
    void* n = L.alloc(new_size);
    if (!n) return nullptr;
    std::memcpy(n, old_ptr, have < new_size ? have : new_size);
    L.release(old_ptr);
    return n;
  }
  static void Free(void* ptr) { ledger().release(ptr); }
  bool operator==(const TrackingAllocator&) const { return true; }
  bool operator!=(const TrackingAllocator&) const { return false; }
  static constexpr bool kNeedFree = true;
};

}  // namespace vf
