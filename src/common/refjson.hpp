// Independent reference implementation of RFC 8259 (no dependency on sonic):
// recogniser + parser to MV, string unescaper (the C05 rules), canonical writer, pointer resolver.
#pragma once
#include <string>
#include <vector>

#include "mv.hpp"

namespace vf {
namespace refjson {

enum Fault {
  kNone = 0,
  kTruncated,      // input ended inside a value / empty input
  kStructural,     // unexpected byte, missing separator, trailing garbage, bad literal, bad number syntax
  kCtrlInString,   // raw byte < 0x20 inside a string literal
  kBadEscape,      // backslash followed by a byte that is not one of "\/bfnrtu
  kBadUnicodeHex,  // \u not followed by 4 hex digits
  kNumberOverflow, // number rounds to infinity
  kDepth,          // nesting deeper than the recogniser's own limit (never expected in our inputs)
};
const char* fault_name(Fault f);

struct Result {
  bool ok = false;              // RFC 8259 grammar accepts (surrogate escapes are *not* checked by the grammar)
  bool bad_surrogate = false;   // some \u escape is an unpaired / wrongly ordered surrogate (C05 rejects these)
  Fault fault = kNone;
  size_t offset = 0;            // first offending byte (== size for truncation)
  bool fault_in_string = false; // the fault lies inside a string literal
  int faults_in_that_string = 0;// number of distinct fault kinds inside the faulty literal's first 32..64 bytes (see .cpp)
  size_t depth_at_fault = 0;    // open containers when the fault was hit
  MV value;                     // valid when ok
};

Result parse(const std::string& text);
inline bool accepts_strict(const Result& r) { return r.ok && !r.bad_surrogate; }

// Decode the body of a string literal (bytes between the quotes). Returns kNone on success.
// Lone / misordered surrogates set *bad_surrogate and are decoded as 3-byte sequences.
Fault unescape(const char* p, size_t n, std::string& out, bool* bad_surrogate, size_t* fault_off = nullptr,
               bool open_ended = false);

// number of distinct fault kinds (control byte, unknown escape, malformed \\u, bad surrogate) in a literal body
int fault_kinds(const char* p, size_t n);

// Canonical JSON text for an MV (Real must be finite).
std::string write(const MV& v);
void write_string(const std::string& s, std::string& out);
void write_number(const MV& v, std::string& out);

struct Step {
  bool is_key = false;
  std::string key;
  long idx = 0;
  static Step K(std::string k) { Step s; s.is_key = true; s.key = std::move(k); return s; }
  static Step I(long i) { Step s; s.idx = i; return s; }
};
typedef std::vector<Step> Path;
// JSON-pointer resolution with first-match semantics for duplicate keys; nullptr when unresolved.
const MV* resolve(const MV& root, const Path& p);
std::string path_show(const Path& p);

// decimal number text -> MV by the C04 rule (text must match the JSON number grammar).
// returns false when the value rounds to infinity.
bool number_value(const std::string& num, MV& out);

}  // namespace refjson
}  // namespace vf
