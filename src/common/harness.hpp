// Harness runtime: case bookkeeping, statistics, replay files, engines, pick-list shrinker.
#pragma once
#include <cstdint>
#include <functional>
#include <map>
#include <string>
#include <vector>

#include "src.hpp"

namespace vf {

struct Fail {
  std::string msg;
};
struct Skip {  // case excluded by construction (open known finding); counted
  std::string why;
};

typedef std::vector<std::pair<std::string, std::string>> Fields;

struct Case {
  int size = 100;           // 0..100 generation size hint (engines ramp it up)
  uint64_t index = 0;       // running case index (enumeration harnesses derive their stratum from it)
  bool counting = true;     // false while shrinking / replaying
  bool replay = false;      // true only when a saved case is being re-executed (--replay)
  bool nontrivial = false;
  uint64_t subevals = 0;    // extra oracle evaluations performed inside this case
  std::vector<std::string> classes;
  std::string description;  // human-readable form of the case (sample)
  Fields fields;            // "direct" replay fields: concrete inputs of the case
  void note(const std::string& k, const std::string& v) {
    for (auto& f : fields)
      if (f.first == k) { f.second = v; return; }
    fields.emplace_back(k, v);
  }
  void cls(const std::string& c) { classes.push_back(c); }
  void nt(bool b = true) { nontrivial = nontrivial || b; }
  void desc(const std::string& d) { description = d; }
  [[noreturn]] void fail(const std::string& m) { throw Fail{m}; }
  void require(bool ok, const std::string& m) {
    if (!ok) throw Fail{m};
  }
  [[noreturn]] void skip(const std::string& why) { throw Skip{why}; }
};

struct HarnessDef {
  const char* name;
  const char* property_id;
  // generated property
  std::function<void(Src&, Case&)> property;
  // optional: run the oracle on concrete inputs saved by Case::note (engine independent)
  std::function<void(const Fields&, Case&)> direct;
  // optional: called once before anything else (after argument parsing)
  std::function<void()> init;
  // optional: extra key/values for the stats file (e.g. exhaustive sub-domains), called at the end
  std::function<void(std::map<std::string, std::string>&)> extra;
};

// global accessors for harness code that wants to count outside a Case
void count_class(const std::string& c, uint64_t n = 1);
const char* arg_value(const char* name);  // harness-specific --name value (or nullptr)
long arg_long(const char* name, long dflt);

int verif_main(int argc, char** argv, const HarnessDef& def);

// libFuzzer glue: run def.property on a FuzzSrc; on Fail writes a replay file next to the
// artifact dir and traps. Returns 0.
int fuzz_one(const HarnessDef& def, const uint8_t* data, size_t size);
// byte-level libFuzzer glue: the whole input becomes field `field_name` and def.direct is the oracle
int fuzz_bytes(const HarnessDef& def, const uint8_t* data, size_t size, const char* field_name);

// helpers
std::string hex(const std::string& s);
std::string unhex(const std::string& s);
std::string printable(const std::string& s, size_t max = 160);
const std::string* field(const Fields& f, const std::string& k);
uint64_t hash64(const void* p, size_t n, uint64_t h = 0xcbf29ce484222325ull);

// engine_rc.cpp
bool rc_engine_run(const std::function<void(Src&, int size)>& body, uint64_t seed, long cases,
                   int max_size);

}  // namespace vf

#ifdef VF_FUZZ
// structure-aware libFuzzer target: the fuzzer's bytes are decoded into picks (FuzzSrc) and drive the same property
#define VF_HARNESS_MAIN(def_expr)                                                   \
  extern "C" int LLVMFuzzerTestOneInput(const uint8_t* data, size_t size) {         \
    static vf::HarnessDef vf_def = (def_expr);                                      \
    return vf::fuzz_one(vf_def, data, size);                                        \
  }
#else
#define VF_HARNESS_MAIN(def_expr) \
  int main(int argc, char** argv) { return vf::verif_main(argc, argv, (def_expr)); }
#endif
