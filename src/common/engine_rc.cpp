// rapidcheck engine: picks are drawn from rapidcheck generators inside rc::check (size-scaled generation,
// seeded through RC_PARAMS). Shrinking is done by the harness runtime's pick-list shrinker on the recorded pick
// sequence (the whole case shrinks as one value): rapidcheck's own shrinking of long imperative recipes turned out
// to be unbounded in time (minutes for a 200-step operation sequence), so it is switched off (noshrink=1).
// Kept in its own TU (built once into libverifsupport.a) so harness TUs need not parse rapidcheck.
#include <rapidcheck.h>

#include <cstdlib>
#include <string>

#include "harness.hpp"

namespace vf {

struct RcSrc : Src {
  uint64_t raw(uint64_t lo, uint64_t hi) override {
    if (lo >= hi) return lo;
    if (hi - lo == ~0ull) return *rc::gen::resize(rc::kNominalSize, rc::gen::arbitrary<uint64_t>());
    if (hi == ~0ull) {  // inRange's upper bound is exclusive
      uint64_t v = *rc::gen::resize(rc::kNominalSize, rc::gen::inRange<uint64_t>(lo - 1, hi));
      return v + 1;
    }
    return *rc::gen::resize(rc::kNominalSize, rc::gen::inRange<uint64_t>(lo, hi + 1));
  }
};

bool rc_engine_run(const std::function<void(Src&, int)>& body, uint64_t seed, long cases, int max_size) {
  std::string params = "seed=" + std::to_string(seed) + " max_success=" + std::to_string(cases) +
                       " max_size=" + std::to_string(max_size) + " noshrink=1";
  setenv("RC_PARAMS", params.c_str(), 1);
  return rc::check("verif property", [&]() {
    int size = *rc::gen::withSize([](int s) { return rc::gen::just(s); });
    RcSrc src;
    try {
      body(src, size);
    } catch (Fail& f) {
      RC_FAIL(f.msg);
    }
  });
}

}  // namespace vf
