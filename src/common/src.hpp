// Random-source abstraction shared by every harness.
//
// A property is written once as `void property(Src&, Case&)`.  Every random choice goes
// through Src::pick(lo,hi); the sequence of picks *is* the canonical form of the case:
//   * RcSrc    - picks come from rapidcheck generators (integrated shrinking)  [engine_rc.cpp]
//   * PrngSrc  - picks come from a counter-based PRNG keyed by (VERIF_SEED, case index)
//   * ReplaySrc- picks come from a saved replay file (or from the pick-list shrinker)
//   * FuzzSrc  - picks are decoded from libFuzzer bytes (structure-aware fuzzing)
// No harness calls rand(), reads the clock or depends on addresses inside a property.
#pragma once
#include <cstddef>
#include <cstdint>
#include <initializer_list>
#include <string>
#include <vector>

namespace vf {

struct Src {
  std::vector<uint64_t> log;  // every pick made for the current case
  virtual ~Src() {}
  // integer in [lo, hi] (inclusive); shrinks towards lo
  uint64_t pick(uint64_t lo, uint64_t hi) {
    uint64_t v = raw(lo, hi);
    if (v < lo || v > hi) v = lo;
    log.push_back(v);
    return v;
  }
  int range(int lo, int hi) { return (int)(int64_t)(pick(0, (uint64_t)((int64_t)hi - lo))) + lo; }
  size_t index(size_t n) { return (size_t)pick(0, n ? n - 1 : 0); }
  bool coin(unsigned num, unsigned den) { return pick(0, den - 1) < num; }
  uint64_t u64() { return pick(0, ~0ull); }
  uint8_t byte() { return (uint8_t)pick(0, 255); }
  // weighted alternative; returns index. Put the simplest alternative first.
  size_t weighted(std::initializer_list<unsigned> w) {
    uint64_t tot = 0;
    for (unsigned x : w) tot += x;
    uint64_t r = pick(0, tot - 1);
    size_t i = 0;
    for (unsigned x : w) {
      if (r < x) return i;
      r -= x;
      ++i;
    }
    return w.size() - 1;
  }
  template <class T>
  const T& oneof(const std::vector<T>& v) { return v[index(v.size())]; }

 protected:
  // must return a value in [lo,hi]; called for every pick (also when lo==hi) so that
  // positional sources stay aligned
  virtual uint64_t raw(uint64_t lo, uint64_t hi) = 0;
};

// SplitMix64-based counter PRNG: the stream is a pure function of (seed, case index).
struct PrngSrc : Src {
  uint64_t s;
  PrngSrc(uint64_t seed, uint64_t idx) {
    s = seed * 0x9E3779B97F4A7C15ull + idx * 0xD1B54A32D192ED03ull + 0x2545F4914F6CDD1Dull;
    next();
    next();
  }
  uint64_t next() {
    uint64_t z = (s += 0x9E3779B97F4A7C15ull);
    z = (z ^ (z >> 30)) * 0xBF58476D1CE4E5B9ull;
    z = (z ^ (z >> 27)) * 0x94D049BB133111EBull;
    return z ^ (z >> 31);
  }
  uint64_t raw(uint64_t lo, uint64_t hi) override {
    if (lo >= hi) return lo;
    uint64_t span = hi - lo;
    if (span == ~0ull) return next();
    unsigned __int128 m = (unsigned __int128)next() * (unsigned __int128)(span + 1);
    return lo + (uint64_t)(m >> 64);
  }
};

// Replays a recorded pick list; out-of-range values fall back to lo (Src::pick clamps), so the
// shrinker may mutate the list freely. Exhausted input yields lo.
struct ReplaySrc : Src {
  const std::vector<uint64_t>& in;
  size_t pos = 0;
  bool exhausted = false;
  explicit ReplaySrc(const std::vector<uint64_t>& v) : in(v) {}
  uint64_t raw(uint64_t lo, uint64_t) override {
    if (pos < in.size()) return in[pos++];
    exhausted = true;
    return lo;
  }
};

// Decodes picks from fuzzer bytes: 1, 2 or 8 bytes per pick depending on the range.
struct FuzzSrc : Src {
  const uint8_t* p;
  const uint8_t* e;
  FuzzSrc(const uint8_t* d, size_t n) : p(d), e(d + n) {}
  uint64_t take(int n) {
    uint64_t v = 0;
    for (int i = 0; i < n; i++) v = (v << 8) | (p < e ? *p++ : 0);
    return v;
  }
  uint64_t raw(uint64_t lo, uint64_t hi) override {
    if (lo >= hi) return lo;
    uint64_t span = hi - lo;
    uint64_t v = span < 256 ? take(1) : span < 65536 ? take(2) : take(8);
    if (span == ~0ull) return v;
    return lo + v % (span + 1);
  }
  bool empty() const { return p >= e; }
};

}  // namespace vf
