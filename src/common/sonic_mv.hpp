// Bridges between sonic documents and the model value MV. Included by harness TUs only
// (this is the only common header that sees sonic).
#pragma once
#include <string>

#include "mv.hpp"
#include "refjson.hpp"
#include "sonic/sonic.h"

namespace vf {

// Read a node back through the public accessor API only.
template <class NodeT>
MV walk(const NodeT& n, std::string* err = nullptr, int depth = 0) {
  auto bad = [&](const char* m) {
    if (err && err->empty()) *err = m;
  };
  int kinds = (int)n.IsNull() + (int)n.IsBool() + (int)n.IsNumber() + (int)n.IsString() + (int)n.IsArray() +
              (int)n.IsObject() + (int)n.IsRaw();
  if (kinds != 1) bad("node answers true to != 1 basic type tests");
  if (n.IsNull()) return MV::null();
  if (n.IsBool()) {
    if (n.IsTrue() == n.IsFalse()) bad("IsTrue/IsFalse inconsistent");
    if (n.GetBool() != n.IsTrue()) bad("GetBool != IsTrue");
    return MV::boolean(n.GetBool());
  }
  if (n.IsNumber()) {
    if (n.IsDouble()) {
      if (n.IsUint64() || n.IsInt64()) bad("double node claims integer kind");
      return MV::real(n.GetDouble());
    }
    if (n.IsUint64()) {
      uint64_t u = n.GetUint64();
      if (n.IsInt64() != (u <= (uint64_t)INT64_MAX)) bad("IsInt64 inconsistent for unsigned");
      // the converting getters read the same value through another type
      if (n.GetDouble() != static_cast<double>(u)) bad("GetDouble() of an unsigned integer node is not the value converted to double");
      if (u <= (uint64_t)INT64_MAX && n.GetInt64() != (int64_t)u) bad("GetInt64() of a small unsigned integer node differs from GetUint64()");
      return MV::uint(u);
    }
    if (n.IsInt64()) {
      int64_t i = n.GetInt64();
      if (i >= 0) bad("signed kind holds a non-negative value");
      if (n.GetDouble() != static_cast<double>(i)) bad("GetDouble() of a negative integer node is not the value converted to double");
      MV m;
      m.k = MV::Sint;
      m.u = (uint64_t)i;
      return m;
    }
    bad("number of no kind");
    return MV::null();
  }
  if (n.IsString()) {
    auto sv = n.GetStringView();
    if (sv.size() != n.Size()) bad("string Size() != view size");
    if (n.Empty() != (sv.size() == 0)) bad("string Empty() inconsistent");
    if (n.GetString() != std::string(sv.data(), sv.size())) bad("GetString != GetStringView");
    return MV::str(std::string(sv.data(), sv.size()));
  }
  if (n.IsArray()) {
    MV m = MV::arr();
    size_t cnt = 0;
    for (auto it = n.Begin(), e = n.End(); it != e; ++it) {
      m.a.push_back(walk(*it, err, depth + 1));
      cnt++;
    }
    if (cnt != n.Size()) bad("array iteration count != Size()");
    if (n.Empty() != (cnt == 0)) bad("array Empty() inconsistent");
    if ((size_t)(n.CEnd() - n.CBegin()) != cnt) bad("CBegin/CEnd distance");
    if (n.Capacity() < cnt) bad("array Capacity < Size");
    return m;
  }
  if (n.IsObject()) {
    MV m = MV::obj();
    size_t cnt = 0;
    for (auto it = n.MemberBegin(), e = n.MemberEnd(); it != e; ++it) {
      if (!it->name.IsString()) bad("member name is not a string");
      auto sv = it->name.GetStringView();
      m.o.emplace_back(std::string(sv.data(), sv.size()), walk(it->value, err, depth + 1));
      cnt++;
    }
    if (cnt != n.Size()) bad("object iteration count != Size()");
    if (n.Empty() != (cnt == 0)) bad("object Empty() inconsistent");
    if (n.Capacity() < cnt) bad("object Capacity < Size");
    return m;
  }
  bad("raw or unknown node kind");
  return MV::null();
}

// Cross-check lookups on every container of `n` against the model `m` (which must equal walk(n)).
template <class NodeT>
void check_lookups(const NodeT& n, const MV& m, std::string* err, bool first_match = false) {
  auto bad = [&](const std::string& s) {
    if (err && err->empty()) *err = s;
  };
  if (m.k == MV::Arr) {
    for (size_t i = 0; i < m.a.size(); i++) {
      const auto& e = n[i];
      if (&e != &*(n.Begin() + i)) bad("operator[](idx) != Begin()+idx");
      check_lookups(e, m.a[i], err, first_match);
    }
    if (!m.a.empty() && &n.Back() != &n[m.a.size() - 1]) bad("Back() != last element");
  } else if (m.k == MV::Obj) {
    for (size_t i = 0; i < m.o.size(); i++) {
      const std::string& k = m.o[i].first;
      size_t first = i;
      for (size_t j = 0; j < i; j++)
        if (m.o[j].first == k) { first = j; break; }
      auto it = n.FindMember(sonic_json::StringView(k.data(), k.size()));
      if (it == n.MemberEnd()) { bad("FindMember(view) misses existing key " + k); continue; }
      // with duplicate keys and a lookup map the library documents "replaced in map": accept any member
      // carrying that key, but without duplicates it must be exactly this member
      bool dup = false;
      for (size_t j = 0; j < m.o.size(); j++) dup = dup || (j != i && m.o[j].first == k);
      auto it2 = n.FindMember(k.data(), k.size());
      size_t got = (size_t)(it - n.MemberBegin());
      if (!dup && got != i) bad("FindMember(view) returned the wrong member for " + k);
      if (dup && m.o[got].first != k) bad("FindMember(view) returned a member with another key");
      const bool want_first = first_match && !m.has_map;  // with a lookup map any member carrying the key may be returned
      if (dup && want_first && got != first) bad("FindMember(view) did not return the first member named " + k);
      if (dup && want_first && it2 != n.MemberEnd() && (size_t)(it2 - n.MemberBegin()) != first)
        bad("FindMember(ptr,len) did not return the first member named " + k);
      if (it2 == n.MemberEnd()) bad("FindMember(ptr,len) misses existing key " + k);
      else if (!dup && it2 != it) bad("FindMember(ptr,len) != FindMember(view)");
      if (!n.HasMember(sonic_json::StringView(k.data(), k.size()))) bad("HasMember false for existing key");
      if (!dup && &n[sonic_json::StringView(k.data(), k.size())] != &it->value) bad("operator[](key) != FindMember value");
      (void)first;
      check_lookups((n.MemberBegin() + i)->value, m.o[i].second, err, first_match);
    }
    // an absent key
    std::string absent = "\x01no-such-key\x02";
    while (m.find(absent)) absent += "!";
    if (n.FindMember(sonic_json::StringView(absent.data(), absent.size())) != n.MemberEnd()) bad("FindMember finds absent key");
    if (n.FindMember(absent.data(), absent.size()) != n.MemberEnd()) bad("FindMember(ptr,len) finds absent key");
    if (n.HasMember(sonic_json::StringView(absent.data(), absent.size()))) bad("HasMember true for absent key");
    if (!n[sonic_json::StringView(absent.data(), absent.size())].IsNull()) bad("operator[](absent) is not a null node");
  }
}

// Build a node from a model value through the mutation API.
template <class NodeT, class Alloc>
void build(NodeT& dst, const MV& m, Alloc& a, bool copy_strings = true) {
  switch (m.k) {
    case MV::Null: dst.SetNull(); break;
    case MV::False: dst.SetBool(false); break;
    case MV::True: dst.SetBool(true); break;
    case MV::Uint: dst.SetUint64(m.u); break;
    case MV::Sint: dst.SetInt64((int64_t)m.u); break;
    case MV::Real: dst.SetDouble(m.dbl()); break;
    case MV::Str:
      if (copy_strings) dst.SetString(m.s.data(), m.s.size(), a);
      else dst.SetString(m.s.data(), m.s.size());
      break;
    case MV::Arr:
      dst.SetArray();
      for (auto& e : m.a) {
        NodeT c;
        build(c, e, a, copy_strings);
        dst.PushBack(std::move(c), a);
      }
      break;
    case MV::Obj:
      dst.SetObject();
      for (auto& kv : m.o) {
        NodeT c;
        build(c, kv.second, a, copy_strings);
        dst.AddMember(sonic_json::StringView(kv.first.data(), kv.first.size()), std::move(c), a, true);
      }
      break;
  }
}

inline sonic_json::JsonPointer to_pointer(const refjson::Path& p) {
  sonic_json::JsonPointer jp;
  for (auto& s : p) {
    if (s.is_key) jp /= sonic_json::JsonPointerNode(s.key);
    else jp /= sonic_json::JsonPointerNode((int)s.idx);
  }
  return jp;
}

}  // namespace vf
