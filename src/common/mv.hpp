// Model value: the JSON value a text denotes / a document holds, with number kinds distinguished
// and doubles compared by bit pattern.  Independent of sonic.
#pragma once
#include <cstdint>
#include <cstring>
#include <string>
#include <utility>
#include <vector>

namespace vf {

struct MV {
  enum Kind { Null, False, True, Uint, Sint, Real, Str, Arr, Obj };
  Kind k = Null;
  uint64_t u = 0;  // Uint: value; Sint: two's complement of the (negative) value; Real: IEEE bits
  bool has_map = false;  // Obj: a lookup map may exist (steers generation / lookup expectations only; ignored by equality)
  bool negzero = false;  // Uint 0 written as "-0" (kind is underspecified: unsigned zero or -0.0 both fine)
  std::string s;
  std::vector<MV> a;
  std::vector<std::pair<std::string, MV>> o;

  static MV null() { return MV(); }
  static MV boolean(bool b) { MV m; m.k = b ? True : False; return m; }
  static MV uint(uint64_t v) { MV m; m.k = Uint; m.u = v; return m; }
  static MV sint(int64_t v) { MV m; m.k = v < 0 ? Sint : Uint; m.u = (uint64_t)v; return m; }
  static MV real_bits(uint64_t b) { MV m; m.k = Real; m.u = b; return m; }
  static MV real(double d) { uint64_t b; memcpy(&b, &d, 8); return real_bits(b); }
  static MV str(std::string v) { MV m; m.k = Str; m.s = std::move(v); return m; }
  static MV arr() { MV m; m.k = Arr; return m; }
  static MV obj() { MV m; m.k = Obj; return m; }
  double dbl() const { double d; memcpy(&d, &u, 8); return d; }
  bool is_container() const { return k == Arr || k == Obj; }
  const MV* find(const std::string& key) const {  // first match
    for (auto& kv : o)
      if (kv.first == key) return &kv.second;
    return nullptr;
  }
  MV* find(const std::string& key) {
    for (auto& kv : o)
      if (kv.first == key) return &kv.second;
    return nullptr;
  }
};

// exact structural equality: object members in order (duplicates significant).
// An expected integer zero written "-0" (negzero) also matches the double -0.0 (kind underspecified).
inline bool eq_ordered(const MV& x, const MV& y) {
  if (x.k != y.k) {
    const MV& i = x.k == MV::Uint ? x : y;
    const MV& r = x.k == MV::Uint ? y : x;
    return i.k == MV::Uint && i.negzero && i.u == 0 && r.k == MV::Real && r.u == 0x8000000000000000ull;
  }
  switch (x.k) {
    case MV::Uint: case MV::Sint: case MV::Real: return x.u == y.u;
    case MV::Str: return x.s == y.s;
    case MV::Arr:
      if (x.a.size() != y.a.size()) return false;
      for (size_t i = 0; i < x.a.size(); i++)
        if (!eq_ordered(x.a[i], y.a[i])) return false;
      return true;
    case MV::Obj:
      if (x.o.size() != y.o.size()) return false;
      for (size_t i = 0; i < x.o.size(); i++)
        if (x.o[i].first != y.o[i].first || !eq_ordered(x.o[i].second, y.o[i].second)) return false;
      return true;
    default: return true;
  }
}

// JSON value equality: objects as key->value maps (inputs must be duplicate-free)
inline bool eq_unordered(const MV& x, const MV& y) {
  if (x.k != y.k) return false;
  switch (x.k) {
    case MV::Uint: case MV::Sint: case MV::Real: return x.u == y.u;
    case MV::Str: return x.s == y.s;
    case MV::Arr:
      if (x.a.size() != y.a.size()) return false;
      for (size_t i = 0; i < x.a.size(); i++)
        if (!eq_unordered(x.a[i], y.a[i])) return false;
      return true;
    case MV::Obj:
      if (x.o.size() != y.o.size()) return false;
      for (auto& kv : x.o) {
        const MV* v = y.find(kv.first);
        if (!v || !eq_unordered(kv.second, *v)) return false;
      }
      return true;
    default: return true;
  }
}

inline bool has_dup_keys(const MV& x) {
  if (x.k == MV::Arr) {
    for (auto& e : x.a)
      if (has_dup_keys(e)) return true;
  } else if (x.k == MV::Obj) {
    for (size_t i = 0; i < x.o.size(); i++) {
      for (size_t j = 0; j < i; j++)
        if (x.o[i].first == x.o[j].first) return true;
      if (has_dup_keys(x.o[i].second)) return true;
    }
  }
  return false;
}

inline size_t mv_depth(const MV& x) {
  size_t d = 0;
  if (x.k == MV::Arr) for (auto& e : x.a) d = std::max(d, mv_depth(e));
  else if (x.k == MV::Obj) for (auto& kv : x.o) d = std::max(d, mv_depth(kv.second));
  else return 0;
  return d + 1;
}
inline size_t mv_nodes(const MV& x) {
  size_t n = 1;
  if (x.k == MV::Arr) for (auto& e : x.a) n += mv_nodes(e);
  else if (x.k == MV::Obj) for (auto& kv : x.o) n += mv_nodes(kv.second);
  return n;
}

// first difference between two values: "path: x vs y" (empty when eq_ordered)
std::string mv_diff(const MV& x, const MV& y);

// debugging / canonical text form (numbers shown with kind tags; not JSON)
std::string mv_show(const MV& x, size_t max = 300);

}  // namespace vf
