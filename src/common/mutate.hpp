// Invalid-text generators: single-fault mutants of valid JSON texts (fault class known by construction
// is NOT relied upon - the refjson recogniser judges every mutant), truncations, byte mutations.
#pragma once
#include <functional>
#include <string>
#include <vector>

#include "genjson.hpp"
#include "src.hpp"

namespace vf {

// returns a description of the mutation applied
inline std::string mutate_text(Src& s, std::string& t) {
  static const char alpha[] = "[]{},:\"\\0123456789-+.eEtrufalsn \t\n\r/xu\x01\x1f\x7f\xff";
  auto anybyte = [&]() -> char {
    return s.coin(3, 4) ? alpha[s.index(sizeof alpha - 1)] : (char)s.pick(0, 255);
  };
  auto positions = [&](const char* set) {
    std::vector<size_t> v;
    for (size_t i = 0; i < t.size(); i++)
      if (strchr(set, t[i]) && t[i]) v.push_back(i);
    return v;
  };
  switch (s.weighted({12, 10, 10, 10, 6, 6, 6, 6, 6, 5, 5, 5, 4, 4, 5})) {
    case 0: {  // truncate
      size_t n = s.index(t.size() + 1);
      t.resize(n);
      return "truncate@" + std::to_string(n);
    }
    case 1: {  // replace a byte
      if (t.empty()) return "noop";
      size_t i = s.index(t.size());
      t[i] = anybyte();
      return "replace@" + std::to_string(i);
    }
    case 2: {  // insert a byte
      size_t i = s.index(t.size() + 1);
      t.insert(t.begin() + (long)i, anybyte());
      return "insert@" + std::to_string(i);
    }
    case 3: {  // delete a byte
      if (t.empty()) return "noop";
      size_t i = s.index(t.size());
      t.erase(i, 1);
      return "delete@" + std::to_string(i);
    }
    case 4: {  // trailing comma before a closer / doubled comma
      auto v = positions("]},");
      if (v.empty()) return "noop";
      size_t i = s.oneof(v);
      t.insert(i, ",");
      return "comma@" + std::to_string(i);
    }
    case 5: {  // drop a structural byte
      auto v = positions(",:[]{}");
      if (v.empty()) return "noop";
      size_t i = s.oneof(v);
      t.erase(i, 1);
      return "dropstruct@" + std::to_string(i);
    }
    case 6: {  // garbage / second root after the end
      static const std::vector<std::string> tails = {"x", "]", "}", ",", "1", " 1", "null", "\"\"", "[]", "{}",
                                                      "\x00", "\"", "\\", "x\"x", "\n\nx", ":"};
      std::string tail = s.oneof(tails);
      if (tail == std::string("\x00")) tail = std::string(1, '\0');
      t += tail;
      return "tail";
    }
    case 7: {  // number faults: put a bad number where a digit run starts
      auto v = positions("0123456789");
      static const std::vector<std::string> bad = {"01", "-", "1.", ".5", "1e", "1e+", "+1", "0x10", "1.e5", "-01",
                                                   "1e400", "-1e999", "1" + std::string(400, '0'), "00", "1.5.5",
                                                   "1ee5", "--1", "1e309", "1.7976931348623159e308", "0.e1", "-.1",
                                                   "1e99999999999999999999", "Infinity", "NaN", "-Infinity"};
      if (v.empty()) { t = s.oneof(bad); return "badnum-root"; }
      size_t i = s.oneof(v);
      // replace the whole digit run containing i
      size_t b = i, e = i;
      while (b > 0 && strchr("0123456789.eE+-", t[b - 1])) b--;
      while (e < t.size() && strchr("0123456789.eE+-", t[e])) e++;
      t.replace(b, e - b, s.oneof(bad));
      return "badnum@" + std::to_string(b);
    }
    case 8: {  // literal misspellings
      static const std::vector<std::string> lits = {"tru", "nul", "fals", "nulll", "True", "NULL", "truee", "n", "t",
                                                    "f", "falsE", "nil", "tru e", "nu\\u006cl"};
      auto v = positions("tfn");
      if (v.empty() || s.coin(1, 3)) {
        auto w = positions("0123456789");
        if (w.empty()) { t = s.oneof(lits); return "badlit-root"; }
        size_t i = s.oneof(w);
        t.replace(i, 1, s.oneof(lits));
        return "badlit@" + std::to_string(i);
      }
      size_t i = s.oneof(v);
      t.replace(i, 1, s.oneof(lits));
      return "badlit@" + std::to_string(i);
    }
    case 9: {  // raw control byte into a string (or anywhere)
      auto v = positions("\"");
      size_t i = v.empty() ? s.index(t.size() + 1) : s.oneof(v) + 1;
      if (i > t.size()) i = t.size();
      t.insert(t.begin() + (long)i, (char)s.pick(0, 0x1f));
      return "ctrl@" + std::to_string(i);
    }
    case 10: {  // unknown escape
      auto v = positions("\"");
      size_t i = v.empty() ? s.index(t.size() + 1) : s.oneof(v) + 1;
      if (i > t.size()) i = t.size();
      char e;
      do { e = (char)s.pick(0, 255); } while (strchr("\"\\/bfnrtu", e) && e);
      std::string ins = "\\";
      ins.push_back(e);
      t.insert(i, ins);
      return "badesc@" + std::to_string(i);
    }
    case 11: {  // malformed \u
      auto v = positions("\"");
      size_t i = v.empty() ? s.index(t.size() + 1) : s.oneof(v) + 1;
      if (i > t.size()) i = t.size();
      static const std::vector<std::string> bad = {"\\u", "\\u1", "\\u12", "\\u123", "\\u12G4", "\\uG123", "\\u 123",
                                                   "\\u123\"", "\\u-123", "\\U0041", "\\u00\\u0041", "\\u+041"};
      t.insert(i, s.oneof(bad));
      return "badu@" + std::to_string(i);
    }
    case 12: {  // unterminated string at the end, tails aimed at the x"x sentinel
      static const std::vector<std::string> tails = {"\"", "\"x", "\"\\", "\"abc\\\"", "\"\\u12", "\"x\\\\", "\"\\\"x"};
      auto v = positions("]}");
      std::string tail = s.oneof(tails);
      if (!v.empty() && s.coin(1, 2)) {
        size_t i = s.oneof(v);
        t.resize(i);
        if (!t.empty() && !strchr("[{,:", t.back())) t += ",";
        if (!t.empty() && t.back() == '{') { t += tail; return "unterminated-key"; }
      } else
        t.clear();
      t += tail;
      return "unterminated";
    }
    case 13: {  // swap two adjacent bytes / duplicate a byte
      if (t.size() < 2) return "noop";
      size_t i = s.index(t.size() - 1);
      if (s.coin(1, 2)) std::swap(t[i], t[i + 1]);
      else t.insert(t.begin() + (long)i, t[i]);
      return "swapdup@" + std::to_string(i);
    }
    default: {  // mismatch a bracket
      auto v = positions("[]{}");
      if (v.empty()) return "noop";
      size_t i = s.oneof(v);
      static const char br[] = "[]{}";
      t[i] = br[s.index(4)];
      return "bracket@" + std::to_string(i);
    }
  }
}

// bracket-heavy nesting stress text (valid or not)
inline std::string nesting_text(Src& s, int max_depth) {
  std::string t;
  int depth = s.range(1, max_depth);
  std::string closers;
  bool valid = s.coin(1, 2);
  for (int d = 0; d < depth; d++) {
    if (s.coin(1, 2)) { t += "["; closers += ']'; }
    else { t += "{\"k\":"; closers += '}'; }
    if (s.coin(1, 6)) {  // siblings before going deeper
      if (closers.back() == ']') t += "1,\"s\",[],{},";
    }
  }
  static const std::vector<std::string> leaves = {"1", "\"leaf\"", "null", "[]", "{}", "1.5e3", "true"};
  t += s.oneof(leaves);
  size_t close_n = valid ? closers.size() : s.index(closers.size() + 1);
  for (size_t i = 0; i < close_n; i++) t += closers[closers.size() - 1 - i];
  if (!valid) {
    switch (s.weighted({3, 2, 2, 2})) {
      case 0: break;  // plain truncation
      case 1: t += s.coin(1, 2) ? "]" : "}"; break;
      case 2: t += ",x"; break;
      default: t += "\"unterminated"; break;
    }
  }
  return t;
}

// A valid text with the highest possible ratio of values to bytes: no white space, only arrays (a few objects with empty
// keys), every scalar one byte long. Sizing rules that estimate the number of values from the text length (parser node
// stacks) are exact or nearly exact on such texts.
inline std::string dense_text(Src& s) {
  std::string t;
  int wrap = s.coin(1, 2) ? 0 : s.range(1, s.coin(1, 4) ? 60 : 6);
  for (int i = 0; i < wrap; i++) t += '[';
  std::function<void(int)> items = [&](int depth) {
    size_t n = s.coin(1, 3) ? (size_t)s.pick(12, 40) : s.coin(1, 2) ? (size_t)s.pick(1, 12) : (size_t)s.pick(1, 300);
    for (size_t i = 0; i < n; i++) {
      if (i) t += ',';
      size_t k = s.weighted({40, 3, 1, 1});
      if (k == 0 || depth >= 4) t += (char)('0' + s.pick(0, 9));
      else if (k == 1) { t += '['; items(depth + 1); t += ']'; }
      else if (k == 2) t += "[]";
      else { t += "{\"\":"; t += (char)('0' + s.pick(0, 9)); t += '}'; }
      if (t.size() > 1500) break;
    }
  };
  t += '[';
  items(0);
  t += ']';
  for (int i = 0; i < wrap; i++) t += ']';
  return t;
}

}  // namespace vf
