// C01 - Parse accepts exactly the RFC 8259 language and reports failure coherently.
// Oracle: refjson recogniser (independent); coherence of (code, offset, IsNull); pad invariance.
#include <cstring>
#include <memory>

#include "common/genjson.hpp"
#include "common/harness.hpp"
#include "common/mutate.hpp"
#include "common/refjson.hpp"
#include "common/sonic_mv.hpp"

using namespace vf;
using sonic_json::Document;

namespace {

struct Verdict {
  bool ok;
  int code;
  size_t off;
};

// parse from a heap block of exactly len bytes so that an over-read of the caller's buffer hits a redzone
static Verdict sonic_parse(const std::string& text, Document& doc) {
  std::unique_ptr<char[]> buf(new char[text.size() ? text.size() : 1]);
  memcpy(buf.get(), text.data(), text.size());
  doc.Parse(buf.get(), text.size());
  return Verdict{!doc.HasParseError(), (int)doc.GetParseError(), doc.GetErrorOffset()};
}

static const char* code_name(int c) { return sonic_json::ErrorMsg((sonic_json::SonicError)c); }

// the whole oracle for one text; returns "" or a failure message
// `recycled`: a document that has parsed something else before (the caller may have Clear()ed its pool): whatever the earlier
// parse left in memory must not influence the verdict
static std::string judge(const std::string& text, Case& c, bool classify, Document* recycled = nullptr) {
  refjson::Result r = refjson::parse(text);
  Document fresh;
  Document& doc = recycled ? *recycled : fresh;
  Verdict v = sonic_parse(text, doc);
  size_t len = text.size();
  char b[256];
  // --- coherence, whatever the verdict
  if (v.ok) {
    if (v.code != 0) return "success but GetParseError() != kErrorNone";
    if (v.off != len) {
      snprintf(b, sizeof b, "success but GetErrorOffset()=%zu != length %zu", v.off, len);
      return b;
    }
  } else {
    if (!doc.IsNull()) return "failed parse left a non-null document";
    if (v.code < 1 || v.code > 7) {
      snprintf(b, sizeof b, "failure code %d (%s) is not a parse error code", v.code, code_name(v.code));
      return b;
    }
    if (v.off > len) {
      snprintf(b, sizeof b, "failure offset %zu outside [0,%zu] (code %d)", v.off, len, v.code);
      return b;
    }
  }
  // --- acceptance
  if (r.ok && r.bad_surrogate) {
    if (classify) c.cls("left-to-C05(surrogate)");
    return "";
  }
  if (r.ok != v.ok) {
    if (r.ok) snprintf(b, sizeof b, "valid RFC 8259 text rejected: code %d (%s) at %zu", v.code, code_name(v.code), v.off);
    else snprintf(b, sizeof b, "invalid text accepted: reference fault %s at %zu", refjson::fault_name(r.fault), r.offset);
    return b;
  }
  if (r.ok) {
    if (classify) c.cls("valid");
    return "";
  }
  // --- fault class naming (only where the first fault is unambiguous)
  if (classify) c.cls(std::string("invalid:") + refjson::fault_name(r.fault));
  bool ambiguous = r.bad_surrogate || r.fault == refjson::kTruncated ||
                   (r.fault_in_string && r.faults_in_that_string >= 2) || r.fault == refjson::kDepth;
  // The class is demanded only for single-fault texts: repairing the first fault must yield a valid text.
  // (A text with further faults may legitimately be rejected for another reason, e.g. its unclosed containers
  // exhaust the parser's node stack before the faulty token is converted.)
  if (!ambiguous && r.fault != refjson::kStructural) {
    std::string fixed = text;
    size_t f = r.offset;
    if (r.fault == refjson::kNumberOverflow) {
      size_t e = f;
      while (e < fixed.size() && strchr("0123456789+-.eE", fixed[e])) e++;
      fixed.replace(f, e - f, "0");
    } else if (r.fault == refjson::kCtrlInString) {
      fixed[f] = 'a';
    } else if (r.fault == refjson::kBadEscape) {
      fixed[f] = 'a';
      if (f + 1 < fixed.size()) fixed[f + 1] = 'a';
    } else if (r.fault == refjson::kBadUnicodeHex) {
      fixed[f] = 'a';
      if (f + 1 < fixed.size()) fixed[f + 1] = 'a';
      for (size_t k = f + 2; k < f + 6 && k < fixed.size() && fixed[k] != '"' && fixed[k] != '\\'; k++) fixed[k] = 'a';
    }
    if (!refjson::parse(fixed).ok) {
      ambiguous = true;
      if (classify) c.cls("multi-fault(class not demanded)");
    }
  }
  if (!ambiguous) {
    bool good = true;
    switch (r.fault) {
      case refjson::kCtrlInString: good = v.code == sonic_json::kParseErrorUnEscaped; break;
      case refjson::kBadEscape: good = v.code == sonic_json::kParseErrorEscapedFormat; break;
      case refjson::kBadUnicodeHex: good = v.code == sonic_json::kParseErrorEscapedUnicode; break;
      case refjson::kNumberOverflow: good = v.code == sonic_json::kParseErrorInfinity; break;
      case refjson::kStructural:
        good = v.code == sonic_json::kParseErrorInvalidChar || v.code == sonic_json::kParseErrorEof;
        break;
      default: break;
    }
    if (!good) {
      snprintf(b, sizeof b, "error code %d (%s) does not name the fault class %s (reference fault at %zu, depth %zu)",
               v.code, code_name(v.code), refjson::fault_name(r.fault), r.offset, r.depth_at_fault);
      return b;
    }
  }
  return "";
}

static void check(const std::string& text, Case& c, const std::string& what) {
  c.note("text", text);
  std::string m = judge(text, c, true);
  if (!m.empty()) c.fail(m + " [" + what + "] text=" + printable(text, 200));
}

static void property(Src& s, Case& c) {
  GenOpts go;
  go.max_nodes = 4 + c.size / 3;
  go.max_depth = 5;
  Layout lay;
  lay.ws = (int)s.weighted({3, 5, 2});
  MV v;
  std::string base;
  size_t mode = s.weighted({18, 62, 8, 12});
  bool dense = s.coin(1, 12);  // maximally dense valid text as the base (also of mutants and prefixes)
  if (mode == 2) base = nesting_text(s, 40);
  else if (dense) {
    base = dense_text(s);
    c.cls("base:dense");
  } else {
    v = gen_value(s, go);
    base = render(s, v, lay);
  }
  std::string text = base, what = "valid";
  if (mode == 1) {
    what = mutate_text(s, text);
    if (s.coin(1, 8)) what += "+" + mutate_text(s, text);
  } else if (mode == 2) what = "nesting";
  else if (mode == 3) what = "prefixes";
  size_t pad = s.weighted({3, 2}) == 0 ? 0 : (size_t)s.pick(1, 70);
  std::string padded = std::string(pad, ' ') + text;
  c.cls("mode:" + std::string(mode == 0 ? "valid" : mode == 1 ? "mutant" : mode == 2 ? "nesting" : "prefixes"));
  c.cls("pad%32=" + std::to_string(pad % 32 / 8 * 8) + "..");
  if (c.counting) c.desc(what + " | " + printable(padded, 120));
  check(padded, c, what);
  if (s.coin(1, 4)) {
    // the same text parsed by a document that parsed the (valid, longer) base text before and whose pool was Clear()ed: the
    // earlier text is still lying in the recycled memory
    // (the document's pool works inside a caller-supplied buffer: Clear() keeps that chunk, so the new text lands exactly where
    // the old one was)
    static std::vector<char> ubuf(1 << 20);
    sonic_json::MemoryPoolAllocator<> upool(ubuf.data(), ubuf.size());
    Document d(&upool);
    std::string longer = std::string(pad, ' ') + "[" + base + ",0,[1],{\"k\":2}]";
    d.Parse(longer);
    bool clear = s.coin(2, 3);
    if (clear) d.GetAllocator().Clear();
    c.cls(clear ? "document:recycled-after-Clear" : "document:reused");
    std::string m = judge(padded, c, false, &d);
    c.subevals++;
    if (!m.empty()) c.fail(m + " [" + what + ", document that parsed a longer text before" + (clear ? ", pool Clear()ed" : "") + "] text=" + printable(padded, 200));
  }
  // non-trivial: at least 2 bytes and the verdict is not decided by the first byte
  {
    refjson::Result r = refjson::parse(text);
    c.nt(text.size() >= 2 && (r.ok || r.offset > 0));
  }
  // pad invariance of the verdict
  if (pad) {
    Document d0, d1;
    Verdict a = sonic_parse(text, d0), bq = sonic_parse(padded, d1);
    c.subevals++;
    if (a.ok != bq.ok) c.fail("verdict depends on the pad offset: pad=" + std::to_string(pad) + " text=" + printable(text, 200));
    if (a.ok && !eq_ordered(walk(d0), walk(d1))) c.fail("parsed value depends on the pad offset: pad=" + std::to_string(pad));
  }
  // every prefix of a (small) valid document
  if (mode == 3 && base.size() <= 400) {
    for (size_t n = 0; n < base.size(); n++) {
      std::string pre = std::string(pad, ' ') + base.substr(0, n);
      c.note("text", pre);
      std::string m = judge(pre, c, false);
      c.subevals++;
      if (!m.empty()) c.fail(m + " [prefix " + std::to_string(n) + "] text=" + printable(pre, 200));
    }
    // the same sweep with ONE document whose pool is Clear()ed between the parses, starting from the complete text
    {
      static std::vector<char> ubuf2(1 << 20);
      sonic_json::MemoryPoolAllocator<> upool(ubuf2.data(), ubuf2.size());
      Document d(&upool);
      d.Parse(std::string(pad, ' ') + base);
      for (size_t n = 0; n < base.size(); n++) {
        std::string pre = std::string(pad, ' ') + base.substr(0, n);
        d.GetAllocator().Clear();
        c.note("text", pre);
        std::string m = judge(pre, c, false, &d);
        c.subevals++;
        if (!m.empty()) c.fail(m + " [prefix " + std::to_string(n) + ", recycled document] text=" + printable(pre, 200));
      }
    }
    count_class("prefix-evals", base.size());
  }
}

static void direct(const Fields& f, Case& c) {
  const std::string* t = field(f, "text");
  if (!t) c.fail("replay has no text field");
  std::string m = judge(*t, c, false);
  if (!m.empty()) c.fail(m + " text=" + printable(*t, 200));
}

}  // namespace

#ifdef VF_FUZZ
extern "C" int LLVMFuzzerTestOneInput(const uint8_t* data, size_t size) {
  static HarnessDef def{"fz_parse", "C01", nullptr, direct, nullptr, nullptr};
  return fuzz_bytes(def, data, size, "text");
}
#else
VF_HARNESS_MAIN((HarnessDef{"c01_parse", "C01", property, direct, nullptr, nullptr}))
#endif
