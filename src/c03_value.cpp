// C03 - a successful Parse yields exactly the value the text denotes.
// Oracle: (1) the generating model value (known by construction, no parser involved),
//         (2) the independent refjson parser. The document is read back through the accessor API only.
#include <cstring>
#include <memory>

#include "common/genjson.hpp"
#include "common/harness.hpp"
#include "common/mutate.hpp"
#include "common/refjson.hpp"
#include "common/sonic_mv.hpp"

using namespace vf;
typedef sonic_json::Document PoolDoc;
typedef sonic_json::GenericDocument<sonic_json::DNode<sonic_json::SimpleAllocator>> FreeDoc;

namespace {

static int g_prior_mode = 0;
template <class DocT>
static void clear_pool(DocT&) {}
template <>
void clear_pool<PoolDoc>(PoolDoc& d) { d.GetAllocator().Clear(); }

template <class DocT>
static std::string judge_doc(const std::string& text, const MV* by_construction, const MV& ref, Case& c, Src* s) {
  std::unique_ptr<char[]> buf(new char[text.size() ? text.size() : 1]);
  memcpy(buf.get(), text.data(), text.size());
  DocT doc;
  // what the document (and its allocator) went through before: nothing / another, longer text / the same followed by
  // Clear() of the pool (the documented way to recycle a pool) / a failed parse
  if (g_prior_mode) {
    std::string prior = g_prior_mode == 3 ? "[" + text.substr(0, text.size() / 2) : "[" + text + ",\"a string before the end\"," + text + " ]";
    doc.Parse(prior);
    if (g_prior_mode != 3 && doc.HasParseError()) return "valid text rejected (as part of a larger array): code " + std::to_string((int)doc.GetParseError());
    if (g_prior_mode == 2) clear_pool(doc);
  }
  doc.Parse(buf.get(), text.size());
  memset(buf.get(), 0xEE, text.size());  // the document must not depend on the caller's buffer after Parse
  buf.reset();
  if (doc.HasParseError())
    return "valid text rejected: code " + std::to_string((int)doc.GetParseError()) + " at " + std::to_string(doc.GetErrorOffset());
  std::string err;
  MV got = walk(doc, &err);
  if (!err.empty()) return "accessor inconsistency: " + err;
  if (by_construction && !eq_ordered(*by_construction, got))
    return "document differs from the generating value (expected vs got) at " + mv_diff(*by_construction, got);
  if (!eq_ordered(ref, got))
    return "document differs from the reference parse (expected vs got) at " + mv_diff(ref, got);
  check_lookups(doc, got, &err, /*first_match=*/true);
  if (!err.empty()) return "lookup inconsistency: " + err;
  // AtPointer on existing paths
  if (s) {
    for (int k = 0; k < 3; k++) {
      refjson::Path p = gen_existing_path(*s, ref, 10);
      const MV* want = refjson::resolve(ref, p);
      auto* node = doc.AtPointer(to_pointer(p));
      c.subevals++;
      if (!want) return "ORACLE-SELF-CHECK: generated existing path does not resolve in the model";
      if (!node) return "AtPointer misses existing path " + refjson::path_show(p);
      if (!eq_ordered(*want, walk(*node, &err))) return "AtPointer returned a different value at " + refjson::path_show(p);
      // the variadic form (keys and indices as plain arguments) must reach the same node
      {
        const typename DocT::NodeType* vn = nullptr;
        bool tried = true;
        auto K = [&](size_t i) { return sonic_json::StringView(p[i].key.data(), p[i].key.size()); };
        auto I = [&](size_t i) { return (size_t)p[i].idx; };
        const DocT& cd = doc;
        if (p.size() == 0) vn = cd.AtPointer();
        else if (p.size() == 1) vn = p[0].is_key ? cd.AtPointer(K(0)) : cd.AtPointer(I(0));
        else if (p.size() == 2) {
          if (p[0].is_key && p[1].is_key) vn = cd.AtPointer(K(0), K(1));
          else if (p[0].is_key) vn = cd.AtPointer(K(0), I(1));
          else if (p[1].is_key) vn = cd.AtPointer(I(0), K(1));
          else vn = cd.AtPointer(I(0), I(1));
        } else if (p.size() == 3 && !p[0].is_key && p[1].is_key && !p[2].is_key) vn = cd.AtPointer(I(0), K(1), I(2));
        else if (p.size() == 3 && p[0].is_key && !p[1].is_key && p[2].is_key) vn = cd.AtPointer(K(0), I(1), K(2));
        else tried = false;
        if (tried && vn != node) return "variadic AtPointer reaches another node than the JsonPointer form at " + refjson::path_show(p);
      }
    }
  }
  return "";
}

static std::string judge(const std::string& text, const MV* by_construction, Case& c, Src* s, int which) {
  refjson::Result r = refjson::parse(text);
  if (by_construction) {
    if (!r.ok) return std::string("ORACLE-SELF-CHECK: reference rejects a text valid by construction: ") + refjson::fault_name(r.fault);
    if (!eq_ordered(*by_construction, r.value)) return "ORACLE-SELF-CHECK: reference parse differs from the generating value";
  }
  if (!r.ok || r.bad_surrogate) return "";  // not a valid text: nothing to say here (C01/C05)
  std::string m;
  if (which == 0 || which == 2) m = judge_doc<PoolDoc>(text, by_construction, r.value, c, s);
  if (m.empty() && (which == 1 || which == 2)) m = judge_doc<FreeDoc>(text, by_construction, r.value, c, s);
  return m;
}

static void property(Src& s, Case& c) {
  GenOpts go;
  static const int kNodes[] = {4, 10, 25, 60, 200};
  go.max_nodes = std::min(kNodes[s.index(5)], 6 + c.size * 2);
  go.prefer_container_root = true;
  go.max_depth = (int)s.weighted({6, 3, 1}) == 0 ? 5 : 12;
  Layout lay;
  lay.ws = (int)s.weighted({3, 4, 3});
  lay.pad_max = s.coin(1, 2) ? 130 : 0;
  MV v = gen_value(s, go);
  std::string text = render(s, v, lay);
  if (s.coin(1, 16)) {  // maximally dense text (one byte per scalar, no white space): the value is what the reference reads
    text = dense_text(s);
    refjson::Result rr = refjson::parse(text);
    if (!rr.ok) c.fail("ORACLE-SELF-CHECK: dense text rejected by the reference");
    v = rr.value;
    c.cls("text:dense");
  }
  // optionally force a container close/open byte onto offset 63/64/65 of a 64-byte block
  if (s.coin(1, 3)) {
    size_t pos = std::string::npos;
    std::vector<size_t> cand;
    for (size_t i = 0; i < text.size(); i++)
      if (strchr("[]{}", text[i])) cand.push_back(i);
    if (!cand.empty()) {
      pos = s.oneof(cand);
      size_t target = 63 + s.index(3);
      size_t cur = pos % 64;
      size_t add = (target % 64 + 64 - cur) % 64;
      text = std::string(add, ' ') + text;
      c.cls("forced-bracket-at-block-edge");
    }
  }
  c.note("text", text);
  size_t d = mv_depth(v), n = mv_nodes(v);
  bool long_ws = text.find(std::string(64, ' ')) != std::string::npos || lay.ws == 2;
  bool wide = false;
  {
    std::vector<const MV*> st{&v};
    while (!st.empty()) {
      const MV* x = st.back();
      st.pop_back();
      if (x->a.size() >= 2 || x->o.size() >= 2) wide = true;
      for (auto& e : x->a) st.push_back(&e);
      for (auto& kv : x->o) st.push_back(&kv.second);
    }
  }
  c.nt(wide || long_ws || d >= 3);
  c.cls("depth=" + std::string(d == 0 ? "0" : d < 3 ? "1-2" : d < 6 ? "3-5" : "6+"));
  c.cls("nodes=" + std::string(n == 1 ? "1" : n < 10 ? "2-9" : n < 50 ? "10-49" : "50+"));
  if (has_dup_keys(v)) c.cls("dup-keys");
  if (long_ws) c.cls("ws-run>=64");
  if (c.counting) c.desc(printable(text, 160));
  g_prior_mode = (int)s.weighted({6, 2, 2, 1});
  c.note("prior", std::to_string(g_prior_mode));
  static const char* pm[] = {"fresh", "reparsed", "reparsed-after-pool-Clear", "reparsed-after-failed-parse"};
  c.cls(std::string("document:") + pm[g_prior_mode]);
  int which = (int)s.weighted({2, 2, 1});
  c.cls(which == 0 ? "alloc:pool" : which == 1 ? "alloc:freeing" : "alloc:both");
  std::string m = judge(text, &v, c, &s, which);
  if (!m.empty()) c.fail(m + " | text=" + printable(text, 300));
}

static void direct(const Fields& f, Case& c) {
  const std::string* t = field(f, "text");
  if (!t) c.fail("replay has no text field");
  std::string m;
  for (int pr = 0; pr < 4 && m.empty(); pr++) {
    g_prior_mode = pr;
    m = judge(*t, nullptr, c, nullptr, 2);
  }
  g_prior_mode = 0;
  if (!m.empty()) c.fail(m + " | text=" + printable(*t, 300));
}

}  // namespace

#ifdef VF_FUZZ
extern "C" int LLVMFuzzerTestOneInput(const uint8_t* data, size_t size) {
  static HarnessDef def{"fz_value", "C03", nullptr, direct, nullptr, nullptr};
  return fuzz_bytes(def, data, size, "text");
}
#else
VF_HARNESS_MAIN((HarnessDef{"c03_value", "C03", property, direct, nullptr, nullptr}))
#endif
