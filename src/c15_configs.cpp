// C15 - all supported x86 build configurations compute identical results.
// Six instantiations of the library live in this one binary, each compiled into its own namespace with its own
// flags (src/c15_part.cpp): {static haswell, static westmere, dynamic dispatch} x {production, AddressSanitizer}.
// Oracle: their digests (accept/reject + error class, Dump, copy/lookup/erase round trip, on-demand outcome and slice,
// ParseSchema result, UpdateLazy result) are equal for every generated input.
#include <cstring>

#include "common/genjson.hpp"
#include "common/harness.hpp"
#include "common/mutate.hpp"
#include "common/refjson.hpp"

using namespace vf;

std::string digest_hsw(const std::string&, const std::string&, const std::string&);
std::string digest_wsm(const std::string&, const std::string&, const std::string&);
std::string digest_dyn(const std::string&, const std::string&, const std::string&);
std::string digest_hsw_asan(const std::string&, const std::string&, const std::string&);
std::string digest_wsm_asan(const std::string&, const std::string&, const std::string&);
std::string digest_dyn_asan(const std::string&, const std::string&, const std::string&);

namespace {

typedef std::string (*Fn)(const std::string&, const std::string&, const std::string&);
static const struct { const char* name; Fn fn; } kCfg[] = {
    {"haswell/prod", digest_hsw},      {"westmere/prod", digest_wsm},      {"dynamic/prod", digest_dyn},
    {"haswell/asan", digest_hsw_asan}, {"westmere/asan", digest_wsm_asan}, {"dynamic/asan", digest_dyn_asan}};

static std::string path_encode(const refjson::Path& p) {
  std::string o;
  for (auto& s : p) {
    if (s.is_key) o += "k" + std::to_string(s.key.size()) + ":" + s.key;
    else o += "i" + std::to_string(s.idx) + ";";
  }
  return o;
}

static std::string judge(const std::string& text, const std::string& path, const std::string& second) {
  std::string ref = kCfg[0].fn(text, path, second);
  for (size_t i = 1; i < 6; i++) {
    std::string d = kCfg[i].fn(text, path, second);
    if (d != ref) {
      size_t k = 0;
      while (k < d.size() && k < ref.size() && d[k] == ref[k]) k++;
      size_t from = k > 30 ? k - 30 : 0;
      return std::string("configuration ") + kCfg[i].name + " differs from " + kCfg[0].name + " at digest offset " + std::to_string(k) + ": ..." +
             printable(ref.substr(from, 90), 120) + " vs ..." + printable(d.substr(from, 90), 120);
    }
  }
  return "";
}

static void property(Src& s, Case& c) {
  GenOpts go;
  static const int kNodes[] = {3, 10, 30, 80};
  go.max_nodes = std::min(kNodes[s.index(4)], 4 + c.size);
  go.max_depth = 6;
  go.prefer_container_root = true;
  static const std::vector<std::string> pool = {"a", "b", "key", "", "a\"b", "k\\", "id", "kkkkkkkkkkkkkkkkkkkkkkkkkkkkkkkkkkkkkkkk",
                                                std::string("a\0b", 3), std::string("a\0c", 3), std::string("\0", 1), "caf\xc3\xa9", "caf\xc3\xaa"};
  go.key_pool = &pool;
  Layout lay;
  lay.ws = (int)s.weighted({3, 4, 3});
  lay.pad_max = s.coin(1, 2) ? 70 : 0;
  MV v = gen_value(s, go);
  std::string text = render(s, v, lay), what = "valid";
  if (s.coin(1, 3)) what = mutate_text(s, text);
  refjson::Path p = gen_existing_path(s, v, 6);
  if (s.coin(1, 3)) p.push_back(s.coin(1, 2) ? refjson::Step::I((long)s.pick(0, 5)) : refjson::Step::K(s.oneof(pool)));
  GenOpts g2 = go;
  g2.max_nodes = 12;
  g2.dup_keys = false;
  MV v2 = gen_value(s, g2);
  Layout l2;
  std::string second = render(s, v2, l2);
  if (s.coin(1, 10)) mutate_text(s, second);
  std::string path = path_encode(p);
  c.note("text", text);
  c.note("path", path);
  c.note("second", second);
  c.cls("input:" + what.substr(0, what.find('@')));
  bool crossing = false;
  {
    // a string or whitespace run crossing a 16-byte boundary
    size_t run = 0;
    for (size_t i = 0; i < text.size(); i++) {
      bool in = text[i] == ' ' || text[i] == '\n' || text[i] == '\t' || text[i] == '\r';
      run = in ? run + 1 : 0;
      if (run >= 2 && (i % 16) == 0) crossing = true;
    }
    size_t q = text.find('"');
    while (q != std::string::npos) {
      size_t e = text.find('"', q + 1);
      if (e == std::string::npos) break;
      if (q / 16 != e / 16) crossing = true;
      q = text.find('"', e + 1);
    }
  }
  c.nt(text.size() >= 17 && crossing);
  if (c.counting) c.desc(what + " path=" + refjson::path_show(p) + " text=" + printable(text, 90));
  std::string m = judge(text, path, second);
  c.subevals += 5;
  if (!m.empty()) c.fail(m + " | text=" + printable(text, 300) + " path=" + refjson::path_show(p) + " second=" + printable(second, 200));
}

static void direct(const Fields& f, Case& c) {
  const std::string* t = field(f, "text");
  if (!t) c.fail("replay has no text field");
  std::string path = field(f, "path") ? *field(f, "path") : "";
  std::string second = field(f, "second") ? *field(f, "second") : "{}";
  std::string m = judge(*t, path, second);
  if (!m.empty()) c.fail(m);
}

}  // namespace

VF_HARNESS_MAIN((HarnessDef{"c15_configs", "C15", property, direct, nullptr, nullptr}))
