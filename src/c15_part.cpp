// One build configuration of the library, compiled into its own namespace (-Dsonic_json=sonic_<cfg>) with its own
// -march / dispatch / sanitizer flags, exposing a digest of everything observable for one input.
// Deliberately includes nothing from src/common that mentions the library (one-definition rule across configurations).
#include <cstdio>
#include <cstring>
#include <memory>
#include <string>

#include <sys/mman.h>
#include <unistd.h>

#include "sonic/sonic.h"
#include "sonic/experiment/lazy_update.h"

#ifndef CFG_FN
#error "compile with -DCFG_FN=<name of the exported digest function>"
#endif

using namespace sonic_json;

static JsonPointer decode_path(const std::string& t) {
  JsonPointer p;
  size_t i = 0;
  while (i < t.size()) {
    if (t[i] == 'k') {
      size_t c = t.find(':', i);
      if (c == std::string::npos) break;
      size_t n = (size_t)atol(t.substr(i + 1, c - i - 1).c_str());
      p /= JsonPointerNode(t.substr(c + 1, n));
      i = c + 1 + n;
    } else if (t[i] == 'i') {
      size_t c = t.find(';', i);
      if (c == std::string::npos) break;
      p /= JsonPointerNode((int)atol(t.substr(i + 1, c - i - 1).c_str()));
      i = c + 1;
    } else
      break;
  }
  return p;
}

static std::string errclass(int code, size_t off) {
  // inside a malformed string literal faults are detected per vector block: only the class is comparable
  if (code == kParseErrorUnEscaped || code == kParseErrorEscapedFormat || code == kParseErrorEscapedUnicode) return "E:string";
  return "E" + std::to_string(code) + "@" + std::to_string(off);
}

std::string CFG_FN(const std::string& text, const std::string& path, const std::string& second) {
  std::string d;
  std::unique_ptr<char[]> buf(new char[text.size() ? text.size() : 1]);
  memcpy(buf.get(), text.data(), text.size());
  // 1/2: parse + serialise
  Document doc;
  doc.Parse(buf.get(), text.size());
  bool ok = !doc.HasParseError();
  d += ok ? "P:ok" : "P:" + errclass((int)doc.GetParseError(), doc.GetErrorOffset());
  if (ok) {
    d += "|D:" + doc.Dump();
    // 3: deep copy into a freeing document, lookup map, member lookups, erase, re-serialise
    GenericDocument<DNode<SimpleAllocator>> cp;
    cp.CopyFrom(doc, cp.GetAllocator(), true);
    if (cp.IsObject()) {
      std::string idx;
      for (auto it = doc.MemberBegin(); it != doc.MemberEnd(); ++it) {
        auto sv = it->name.GetStringView();
        auto f1 = cp.FindMember(sv);
        auto f2 = cp.FindMember(sv.data(), sv.size());
        idx += std::to_string(f1 - cp.MemberBegin()) + "," + std::to_string(f2 - cp.MemberBegin()) + ";";
      }
      cp.CreateMap(cp.GetAllocator());
      // the same lookups again, now through the map (its comparator is configuration specific)
      for (auto it = doc.MemberBegin(); it != doc.MemberEnd(); ++it) {
        auto sv = it->name.GetStringView();
        auto f1 = cp.FindMember(sv);
        idx += (f1 == cp.MemberEnd() ? std::string("miss") : std::string(f1->name.GetStringView() == sv ? "k" : "WRONG")) + ",";
      }
      idx += cp.HasMember("a") ? "a" : "-";
      idx += cp.HasMember(std::string(40, 'k')) ? "K" : "-";
      if (cp.Size()) cp.RemoveMember(cp.MemberBegin()->name.GetStringView());
      d += "|L:" + idx;
    } else if (cp.IsArray() && cp.Size() > 1) {
      cp.Erase(cp.Begin());
    }
    d += "|C:" + cp.Dump() + (cp == doc ? "=" : "!");
  }
  // 4: on-demand
  {
    StringView target;
    ParseResult r = GetOnDemand(StringView(buf.get(), text.size()), decode_path(path), target);
    // (an escaped key that fails to decode reports one of the three string-literal codes: only the class is comparable)
    int oc = (int)r.Error();
    d += (oc == kParseErrorUnEscaped || oc == kParseErrorEscapedFormat || oc == kParseErrorEscapedUnicode) ? std::string("|O:string")
                                                                                                          : "|O:" + std::to_string(oc);
    if (r.Error() == kErrorNone) d += "@" + std::to_string(target.data() - buf.get()) + "+" + std::to_string(target.size());
  }
  // 5: ParseSchema of the second text into the parsed first one
  Document s2;
  s2.Parse(second);
  const bool second_ok = !s2.HasParseError();
  d += second_ok ? "|2:ok" : "|2:" + errclass((int)s2.GetParseError(), s2.GetErrorOffset());
  if (ok && second_ok) {
    Document sd;
    sd.Parse(text);
    sd.ParseSchema(second);
    d += "|S:" + (sd.HasParseError() ? errclass((int)sd.GetParseError(), sd.GetErrorOffset()) : sd.Dump());
  }
  // 7: serialise strings that BORROW bytes ending on the last byte before an unmapped page (the raw text serves as content:
  // it is full of quotes and backslashes), for several lengths
  {
    static char* arena = nullptr;
    static size_t page = 0;
    if (!arena) {
      page = (size_t)sysconf(_SC_PAGESIZE);
      arena = (char*)mmap(nullptr, 3 * page, PROT_READ | PROT_WRITE, MAP_PRIVATE | MAP_ANONYMOUS, -1, 0);
      mprotect(arena + 2 * page, page, PROT_NONE);
    }
    size_t n = text.size() < 2 * page ? text.size() : 2 * page;
    char* end = arena + 2 * page;
    memcpy(end - n, text.data() + (text.size() - n), n);
    std::string q;
    size_t k = 0;
    for (size_t len : {n, n > 3 ? n - 3 : n, n / 2, n > 40 ? (size_t)37 : n / 3, n > 80 ? (size_t)77 : n / 4, n > 33 ? (size_t)31 : n, n > 70 ? (size_t)63 : n}) {
      // the string ends `slack` bytes before the unmapped page (0: on its last byte; 1: like a C string whose NUL is the last byte)
      static const size_t slacks[] = {0, 1, 2, 1, 17, 1, 33};
      size_t slack = slacks[k++ % 7];
      if (len + slack > n) slack = 0;
      Document sd;
      sd.SetArray();
      Node sn;
      sn.SetString(end - slack - len, len);
      sd.PushBack(std::move(sn), sd.GetAllocator());
      q += sd.Dump() + ";";
    }
    d += "|Q:" + q;
  }
  // 6: UpdateLazy
  if (ok && second_ok) d += "|U:" + UpdateLazy(text, second);
  return d;
}
