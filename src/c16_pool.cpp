// C16 - the pool allocator hands out aligned, disjoint, stable blocks (stateful, model-based).
// Model = ledger of live blocks per pool + the chunks the base allocator handed to the pool (tracking base allocator).
#include <cstring>
#include <memory>

#include "common/harness.hpp"
#include "common/track_alloc.hpp"
#include "sonic/allocator.h"

using namespace vf;
using namespace sonic_json;

namespace {

static size_t al8(size_t n) { return (n + 7) & ~(size_t)7; }

struct Block {
  uint8_t* p;
  size_t size;      // requested size
  uint8_t pat;
  size_t reserved;  // bytes of the pool actually reserved for it (8-aligned; never shrinks: the pool does not shrink blocks)
};
struct PoolModel {
  std::vector<Block> blocks;    // live since the last Clear, in allocation order
  size_t handed = 0;            // model of Size(): 8-aligned hand-outs since the last Clear
  size_t chunk_cap = 0;
  std::unique_ptr<uint8_t[]> user_store;
  uint8_t* user_buf = nullptr;
  size_t user_size = 0;
  int refs = 0;
  bool last_valid = false;      // blocks.back() is the pool's most recent allocation (no Clear / forgotten block since)
};

template <class Policy>
struct World {
  typedef MemoryPoolAllocator<TrackingAllocator, Policy> Pool;
  struct Handle {
    std::unique_ptr<Pool> a;  // null = destroyed
    int pool = -1;            // -1 = moved-from / none
  };
  std::vector<Handle> h;
  std::vector<std::unique_ptr<PoolModel>> pools;
  uint8_t next_pat = 1;
  std::map<std::string, int> events;
  TrackingAllocator base;

  World() { h.resize(3); }
  void ev(const char* e) { events[e]++; }

  // where does [p, p+n) live?  returns "" if inside one base chunk past its header or inside the user buffer
  std::string containment(PoolModel& pm, uint8_t* p, size_t n) {
    if (pm.user_buf && p >= pm.user_buf && p + n <= pm.user_buf + pm.user_size) return "";
    for (auto& kv : ledger().live) {
      uint8_t* c = (uint8_t*)kv.first;
      if (p >= c && p + n <= c + kv.second.size) {
        if (p < c + 24) return "block overlaps the chunk header";
        return "";
      }
    }
    return "block does not lie wholly inside one chunk obtained from the base allocator (or the user buffer)";
  }
  size_t room_after(PoolModel& pm, const Block& b) {  // bytes between the end of the (aligned) block and the end of its chunk
    uint8_t* e = b.p + b.reserved;
    if (pm.user_buf && b.p >= pm.user_buf && b.p < pm.user_buf + pm.user_size) return (size_t)(pm.user_buf + pm.user_size - e);
    for (auto& kv : ledger().live) {
      uint8_t* c = (uint8_t*)kv.first;
      if (b.p >= c && b.p < c + kv.second.size) return (size_t)(c + kv.second.size - e);
    }
    return 0;
  }
  std::string check_new_block(PoolModel& pm, uint8_t* p, size_t n, const Block* ignore) {
    if (((uintptr_t)p & 7) != 0) return "block is not 8-byte aligned";
    std::string m = containment(pm, p, n);
    if (!m.empty()) return m;
    for (auto& b : pm.blocks) {
      if (&b == ignore) continue;
      if (p < b.p + b.size && b.p < p + n) return "block overlaps a live block handed out since the last Clear";
    }
    return "";
  }
  std::string verify_all() {
    for (auto& pm : pools) {
      if (!pm || pm->refs == 0) continue;
      for (auto& b : pm->blocks)
        for (size_t i = 0; i < b.size; i += (b.size <= 512 || i < 64 || i + 65 >= b.size) ? 1 : 61)
          if (b.p[i] != b.pat) return "contents of a live block were disturbed (block of " + std::to_string(b.size) + " bytes, offset " + std::to_string(i) + ")";
    }
    // accounting through every live handle
    for (auto& hd : h) {
      if (!hd.a || hd.pool < 0) continue;
      PoolModel& pm = *pools[(size_t)hd.pool];
      size_t sz = hd.a->Size(), cap = hd.a->Capacity();
      if (sz != pm.handed) return "Size() = " + std::to_string(sz) + " but " + std::to_string(pm.handed) + " bytes were handed out since the last Clear";
      if (sz > cap) return "Size() exceeds Capacity()";
      size_t livesum = 0;
      for (auto& b : pm.blocks) livesum += b.size;
      if (cap < livesum) return "Capacity() is smaller than the live blocks";
      size_t supplied = pm.user_size;
      for (auto& kv : ledger().live) supplied += kv.second.size;
      if (cap > supplied) return "Capacity() exceeds what the base allocator and the user buffer supplied";
      if (hd.a->Shared() != (pm.refs > 1)) return "Shared() disagrees with the number of copies";
    }
    if (!ledger().errors.empty()) return "base allocator: " + ledger().errors[0];
    return "";
  }

  size_t gen_size(Src& s, PoolModel& pm) {
    size_t cap = pm.chunk_cap;
    switch (s.weighted({4, 12, 6, 6, 6, 1})) {
      case 0: return 0;
      case 1: return (size_t)s.pick(1, 48);
      case 2: {
        static const size_t f[] = {1, 7, 8, 9, 15, 16, 17};
        return f[s.index(7)];
      }
      case 3: {
        size_t v[] = {cap > 8 ? cap - 8 : 1, cap, cap + 1, 2 * cap, cap / 2, cap - 1};
        return v[s.index(6)];
      }
      case 4: {  // relative to what remains in the current chunk
        if (pm.blocks.empty() || !pm.last_valid) return (size_t)s.pick(1, 64);
        size_t room = room_after(pm, pm.blocks.back());
        size_t v[] = {room > 8 ? room - 8 : 1, room ? room : 1, room + 1, room > 1 ? room - 1 : 1};
        return v[s.index(4)];
      }
      default: return (size_t)s.pick(1, s.coin(1, 8) ? 200 * 1024 : 8 * 1024);
    }
  }

  void release_handle(size_t i) {
    if (h[i].a) {
      int p = h[i].pool;
      h[i].a.reset();
      if (p >= 0) pools[(size_t)p]->refs--;
      h[i].pool = -1;
    }
  }

  std::string step(Src& s) {
    size_t i = s.index(h.size());
    size_t op = s.weighted({h[i].a && h[i].pool >= 0 ? 0u : 20u, 30, 18, 3, 4, 3, 2, 2, 3});
    if (!h[i].a || h[i].pool < 0) op = (h[i].a && s.coin(1, 4)) ? 8 : 0;  // an invalid handle can only be destroyed or re-created
    switch (op) {
      case 0: {  // (re)create: new pool
        release_handle(i);
        std::unique_ptr<PoolModel> pm(new PoolModel());
        static const size_t caps[] = {64, 256, 1024, 65536};
        pm->chunk_cap = caps[s.index(4)];
        size_t mode = s.weighted({5, 3});
        if (mode == 0) {
          h[i].a.reset(new Pool(pm->chunk_cap, s.coin(1, 2) ? &base : nullptr));
        } else {
          static const size_t usz[] = {64, 72, 100, 256, 4096};
          size_t n = usz[s.index(5)];
          size_t mis = s.coin(1, 2) ? (size_t)s.pick(1, 7) : 0;
          pm->user_store.reset(new uint8_t[n + 16]);
          uint8_t* raw = pm->user_store.get();
          uint8_t* ub = (uint8_t*)(((uintptr_t)raw + 7) & ~(uintptr_t)7) + mis;
          h[i].a.reset(new Pool(ub, n, pm->chunk_cap, s.coin(1, 2) ? &base : nullptr));
          pm->user_buf = ub;
          pm->user_size = n;
          ev(mis ? "user-buffer-misaligned" : "user-buffer");
        }
        pm->refs = 1;
        pools.push_back(std::move(pm));
        h[i].pool = (int)pools.size() - 1;
        return "new pool cap=" + std::to_string(pools.back()->chunk_cap) + (pools.back()->user_buf ? " user-buffer" : "");
      }
      case 1: {  // Malloc
        PoolModel& pm = *pools[(size_t)h[i].pool];
        size_t n = gen_size(s, pm);
        size_t before = ledger().live.size();
        // one request in twelve meets a base allocator that refuses its next request: a null result is then legitimate, and
        // it must leave everything handed out so far, and the accounting, untouched
        bool refuse = s.coin(1, 12);
        uint64_t r0 = ledger().refusals;
        if (refuse) ledger().fail_budget = 1;
        uint8_t* p = (uint8_t*)h[i].a->Malloc(n);
        ledger().fail_budget = 0;
        if (n == 0) return p ? "!Malloc(0) returned a block" : "Malloc(0)";
        if (!p && ledger().refusals > r0) {
          ev("base-refusal");
          return "Malloc(" + std::to_string(n) + ") refused by the base allocator";
        }
        if (!p) return "!Malloc(" + std::to_string(n) + ") returned null";
        std::string m = check_new_block(pm, p, n, nullptr);
        if (!m.empty()) return "!Malloc(" + std::to_string(n) + "): " + m;
        if (ledger().live.size() > before) ev("chunk-overflow");
        Block b{p, n, next_pat, al8(n)};
        next_pat = (uint8_t)(next_pat * 37 + 11);
        memset(p, b.pat, n);
        pm.blocks.push_back(b);
        pm.handed += al8(n);
        pm.last_valid = true;
        return "Malloc(" + std::to_string(n) + ")";
      }
      case 2: {  // Realloc
        PoolModel& pm = *pools[(size_t)h[i].pool];
        if (pm.blocks.empty() || s.coin(1, 12)) {  // Realloc(nullptr, 0, n) behaves like Malloc
          size_t n = gen_size(s, pm);
          uint8_t* p = (uint8_t*)h[i].a->Realloc(nullptr, 0, n);
          if (n == 0) return p ? "!Realloc(null,0,0) returned a block" : "Realloc(null,0,0)";
          if (!p) return "!Realloc(null) returned null";
          std::string m = check_new_block(pm, p, n, nullptr);
          if (!m.empty()) return "!Realloc(null,0," + std::to_string(n) + "): " + m;
          Block b{p, n, next_pat, al8(n)};
          next_pat = (uint8_t)(next_pat * 37 + 11);
          memset(p, b.pat, n);
          pm.blocks.push_back(b);
          pm.handed += al8(n);
          pm.last_valid = true;
          return "Realloc(null,0," + std::to_string(n) + ")";
        }
        size_t bi = s.weighted({5, 3}) == 0 ? pm.blocks.size() - 1 : s.index(pm.blocks.size());
        Block old = pm.blocks[bi];
        // "most recent allocation" as the caller can know it: last block, and the size it passes is the reserved one
        bool is_last = bi + 1 == pm.blocks.size() && pm.last_valid && al8(old.size) == old.reserved;
        size_t n;
        switch (s.weighted({2, 2, 5, 1})) {
          case 0: n = old.size ? (size_t)s.pick(1, old.size) : 1; break;     // shrink / same
          case 1: n = old.size; break;
          case 2: n = old.size + gen_size(s, pm); break;                      // grow
          default: n = 0; break;
        }
        size_t room = room_after(pm, old);
        bool refuse = s.coin(1, 8);
        uint64_t r0 = ledger().refusals;
        if (refuse) ledger().fail_budget = 1;
        uint8_t* p = (uint8_t*)h[i].a->Realloc(old.p, old.size, n);
        ledger().fail_budget = 0;
        if (n != 0 && !p && ledger().refusals > r0) {
          // the caller still owns the old block: nothing may have changed (verified after the step like after every step)
          ev("base-refusal");
          ev("base-refusal-in-realloc");
          return "Realloc(" + std::to_string(old.size) + "->" + std::to_string(n) + ") refused by the base allocator";
        }
        if (n == 0) {
          if (p) return "!Realloc(p, old, 0) returned a block";
          // the block is given up by the caller; it stays reserved inside the pool
          if (bi + 1 == pm.blocks.size()) pm.last_valid = false;  // the most recent allocation is no longer tracked
          pm.blocks.erase(pm.blocks.begin() + (long)bi);
          return "Realloc(->0)";
        }
        if (!p) return "!Realloc returned null";
        size_t keep = std::min(old.size, n);
        for (size_t k = 0; k < keep; k++)
          if (p[k] != old.pat) return "!Realloc lost the first min(old,new) bytes (offset " + std::to_string(k) + ")";
        if (al8(n) <= al8(old.size)) {
          if (p != old.p) return "!Realloc to a size that fits returned a different block";
          pm.blocks[bi].size = n;
          memset(p, old.pat, n);
          return "Realloc(shrink " + std::to_string(old.size) + "->" + std::to_string(n) + ")";
        }
        size_t inc = al8(n) - al8(old.size);
        if (p == old.p) {
          if (!(bi + 1 == pm.blocks.size() && pm.last_valid)) return "!Realloc grew a block in place although it was not the most recent allocation";
          if (inc > room) return "!Realloc grew a block in place beyond its chunk";
          std::string m = check_new_block(pm, p, n, &pm.blocks[bi]);
          if (!m.empty()) return "!Realloc in place: " + m;
          pm.handed += inc;
          pm.blocks[bi].size = n;
          pm.blocks[bi].reserved = al8(n);
          memset(p, old.pat, n);
          ev("realloc-in-place");
          return "Realloc(in place " + std::to_string(old.size) + "->" + std::to_string(n) + ")";
        }
        if (is_last && inc <= room) return "!Realloc moved the most recent allocation although " + std::to_string(room) + " bytes remained in its chunk (needed " + std::to_string(inc) + ")";
        std::string m = check_new_block(pm, p, n, nullptr);
        if (!m.empty()) return "!Realloc (moved): " + m;
        // the old block stays reserved (never reused) - keep watching its bytes? it no longer belongs to the caller
        pm.blocks.erase(pm.blocks.begin() + (long)bi);
        Block b{p, n, old.pat, al8(n)};
        memset(p, b.pat, n);
        pm.blocks.push_back(b);
        pm.handed += al8(n);
        pm.last_valid = true;
        ev(is_last ? "realloc-last-across-chunk" : "realloc-not-last");
        return "Realloc(moved " + std::to_string(old.size) + "->" + std::to_string(n) + ")";
      }
      case 3: {  // Clear
        PoolModel& pm = *pools[(size_t)h[i].pool];
        h[i].a->Clear();
        pm.blocks.clear();
        pm.handed = 0;
        pm.last_valid = false;
        if (h[i].a->Size() != 0) return "!Size() != 0 after Clear";
        ev("clear");
        return "Clear";
      }
      case 4: {  // copy-construct into another handle slot
        size_t j = s.index(h.size());
        if (j == i) return "noop";
        release_handle(j);
        h[j].a.reset(new Pool(*h[i].a));
        h[j].pool = h[i].pool;
        pools[(size_t)h[i].pool]->refs++;
        ev("copy-construct");
        return "copy-construct " + std::to_string(i) + " -> " + std::to_string(j);
      }
      case 5: {  // copy-assign onto an existing handle object (valid or moved-from)
        size_t j = s.index(h.size());
        if (!h[j].a) return "noop";
        if (h[j].pool >= 0) pools[(size_t)h[j].pool]->refs--;
        *h[j].a = *h[i].a;
        h[j].pool = h[i].pool;
        pools[(size_t)h[i].pool]->refs++;
        ev(i == j ? "self-copy-assign" : "copy-assign");
        return "copy-assign " + std::to_string(i) + " -> " + std::to_string(j);
      }
      case 6: {  // move-construct
        size_t j = s.index(h.size());
        if (j == i) return "noop";
        release_handle(j);
        h[j].a.reset(new Pool(std::move(*h[i].a)));
        h[j].pool = h[i].pool;
        h[i].pool = -1;  // moved-from: only destruction / assignment-to from now on
        ev("move-construct");
        return "move-construct " + std::to_string(i) + " -> " + std::to_string(j);
      }
      case 7: {  // move-assign
        size_t j = s.index(h.size());
        if (j == i || !h[j].a) return "noop";
        if (h[j].pool >= 0) pools[(size_t)h[j].pool]->refs--;
        *h[j].a = std::move(*h[i].a);
        h[j].pool = h[i].pool;
        h[i].pool = -1;
        ev("move-assign");
        return "move-assign " + std::to_string(i) + " -> " + std::to_string(j);
      }
      default: {  // destroy the handle
        int p = h[i].pool;
        size_t before = ledger().live.size();
        release_handle(i);
        if (p >= 0 && pools[(size_t)p]->refs == 0) {
          ev("last-copy-destroyed");
          if (ledger().live.size() > before) return "!destroying the last copy allocated memory";
        } else if (p >= 0 && ledger().live.size() != before)
          return "!destroying a copy released chunks although other copies are alive";
        return "destroy handle " + std::to_string(i);
      }
    }
  }
};

template <class Policy>
static void run_case(Src& s, Case& c, const char* pname) {
  ledger().reset();
  std::string fail;
  std::vector<std::string> trace;
  std::map<std::string, int> events;
  {
    World<Policy> w;
    size_t nsteps = (size_t)s.pick(1, (uint64_t)(20 + c.size * 3));
    for (size_t k = 0; k < nsteps && fail.empty(); k++) {
      std::string d = w.step(s);
      trace.push_back(d);
      if (!d.empty() && d[0] == '!') { fail = d.substr(1); break; }
      fail = w.verify_all();
    }
    events = w.events;
    // destroy every handle: all chunks must go back to the base allocator, user buffers are never freed by the pool
    for (size_t i = 0; i < w.h.size(); i++) w.release_handle(i);
    if (fail.empty() && !ledger().errors.empty()) fail = "base allocator (at destruction): " + ledger().errors[0];
    if (fail.empty() && !ledger().live.empty())
      fail = std::to_string(ledger().live.size()) + " chunk(s) not returned to the base allocator after the last copy was destroyed";
  }
  c.cls(std::string("policy:") + pname);
  bool nt = false;
  int live_handles = 0;
  for (auto& e : events) {
    c.cls("event:" + e.first);
    if (e.first == "chunk-overflow" || e.first == "realloc-in-place" || e.first == "realloc-last-across-chunk" || e.first.find("copy") != std::string::npos) nt = true;
  }
  (void)live_handles;
  c.nt(nt);
  if (c.counting) {
    std::string d = std::to_string(trace.size()) + " ops: ";
    for (size_t i = 0; i < trace.size() && d.size() < 260; i++) d += trace[i] + "; ";
    c.desc(d);
  }
  if (!fail.empty()) {
    std::string d;
    size_t from = trace.size() > 10 ? trace.size() - 10 : 0;
    for (size_t i = from; i < trace.size(); i++) d += "[" + std::to_string(i) + "] " + trace[i] + "; ";
    c.fail(fail + " | policy=" + pname + " after " + std::to_string(trace.size()) + " ops, last: " + d);
  }
}

static void property(Src& s, Case& c) {
  if (s.coin(1, 2)) run_case<SimpleChunkPolicy>(s, c, "simple");
  else run_case<AdaptiveChunkPolicy>(s, c, "adaptive");
}

}  // namespace

VF_HARNESS_MAIN((HarnessDef{"c16_pool", "C16", property, nullptr, nullptr, nullptr}))
