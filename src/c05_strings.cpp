// C05 - string literals decode exactly per RFC 8259 escapes, wherever they sit.
// Oracle: refjson::unescape (written from the property text). Literals are placed so that the feature sits at
// every offset 0..69 relative to 16/32-byte blocks, and are parsed as root value, array element, object key,
// on-demand key and UpdateLazy key.
#include <cstring>
#include <thread>
#include <memory>

#include "common/genjson.hpp"
#include "common/harness.hpp"
#include "common/refjson.hpp"
#include "common/sonic_mv.hpp"
#include "sonic/experiment/lazy_update.h"

using namespace vf;
using namespace sonic_json;

namespace {

static bool g_exh = false;       // --exhaustive-u: case index enumerates all 65536 \u values
static bool g_exh_pairs = false; // --exhaustive-pairs: case index enumerates all 1024 x 1024 surrogate pairs
static uint64_t g_pairs_seen = 0;
static uint64_t g_u_seen = 0;    // number of \u values enumerated (exhaustive mode)

struct Expect {
  bool accept;
  std::string bytes;
  int code;        // expected error code when rejected and the class is unambiguous, else 0
};

static Expect expectation(const std::string& body) {
  Expect e;
  bool bad_sur = false;
  refjson::Fault f = refjson::unescape(body.data(), body.size(), e.bytes, &bad_sur);
  e.accept = f == refjson::kNone && !bad_sur;
  e.code = 0;
  if (!e.accept && refjson::fault_kinds(body.data(), body.size()) == 1) {
    if (f == refjson::kCtrlInString) e.code = kParseErrorUnEscaped;
    else if (f == refjson::kBadEscape) e.code = kParseErrorEscapedFormat;
    else if (f == refjson::kBadUnicodeHex) e.code = kParseErrorEscapedUnicode;
    else if (f == refjson::kNone && bad_sur) e.code = kParseErrorEscapedUnicode;
  }
  return e;
}

static std::string parse_text(Document& doc, const std::string& text) {
  std::unique_ptr<char[]> buf(new char[text.size() ? text.size() : 1]);
  memcpy(buf.get(), text.data(), text.size());
  doc.Parse(buf.get(), text.size());
  return "";
}

// The decoding kernel itself: parseStringInplace(src, err) with src just behind the opening quote of a literal that sits in a
// buffer padded like the parser's private copy (64 zero bytes). In the runtime-dispatch build the resolver picks one clone per
// host, so the SSE clone and the AVX2 clone are also called directly.
typedef size_t (*DecodeFn)(uint8_t*&, SonicError&);
struct DecodeKernel { const char* name; DecodeFn fn; };
static size_t k_dispatch(uint8_t*& p, SonicError& e) { return internal::parseStringInplace(p, e); }
#ifdef SONIC_DYNAMIC_DISPATCH
__attribute__((target(SONIC_WESTMERE))) static size_t k_sse(uint8_t*& p, SonicError& e) { return internal::sse::parseStringInplace(p, e); }
__attribute__((target(SONIC_HASWELL))) static size_t k_avx2(uint8_t*& p, SonicError& e) { return internal::avx2::parseStringInplace(p, e); }
static const DecodeKernel kDecoders[] = {{"dispatch", k_dispatch}, {"sse-clone", k_sse}, {"avx2-clone", k_avx2}};
#else
static const DecodeKernel kDecoders[] = {{"static", k_dispatch}};
#endif

// body must not contain an unescaped quote (the literal would end early); callers guarantee that
static std::string judge(const std::string& body, int ctx, size_t pad, Case& c) {
  Expect e = expectation(body);
  std::string lit = "\"" + body + "\"";
  std::string padding(pad, ' ');
  char b[200];
  auto verdict = [&](Document& doc, const char* where) -> std::string {
    bool ok = !doc.HasParseError();
    if (ok != e.accept) {
      snprintf(b, sizeof b, "%s: literal %s but reference says %s (code %d at %zu)", where, ok ? "accepted" : "rejected",
               e.accept ? "accept" : "reject", (int)doc.GetParseError(), doc.GetErrorOffset());
      return b;
    }
    if (!ok) {
      int code = (int)doc.GetParseError();
      if (code != kParseErrorUnEscaped && code != kParseErrorEscapedFormat && code != kParseErrorEscapedUnicode) {
        snprintf(b, sizeof b, "%s: rejected with code %d which is not a string error class", where, code);
        return b;
      }
      if (e.code && code != e.code) {
        snprintf(b, sizeof b, "%s: rejected with code %d, expected %d", where, code, e.code);
        return b;
      }
    }
    return "";
  };
  auto same = [&](sonic_json::StringView sv, const char* where) -> std::string {
    if (sv.size() != e.bytes.size() || memcmp(sv.data(), e.bytes.data(), sv.size()) != 0)
      return std::string(where) + ": decoded bytes differ: got " + printable(std::string(sv.data(), sv.size()), 120) +
             " expected " + printable(e.bytes, 120);
    return "";
  };
  std::string m;
  switch (ctx) {
    case 0: {  // root value
      Document doc;
      parse_text(doc, padding + lit);
      if (!(m = verdict(doc, "root")).empty()) return m;
      if (e.accept) {
        if (!doc.IsString()) return "root: not a string";
        return same(doc.GetStringView(), "root");
      }
      return "";
    }
    case 1: {  // array element
      Document doc;
      parse_text(doc, padding + "[1," + lit + ",\"tail\"]");
      if (!(m = verdict(doc, "array element")).empty()) return m;
      if (e.accept) {
        if (!doc.IsArray() || doc.Size() != 3 || !doc[1].IsString()) return "array element: wrong shape";
        if (!(m = same(doc[1].GetStringView(), "array element")).empty()) return m;
        if (doc[2].GetStringView() != "tail") return "array element: following element damaged";
      }
      return "";
    }
    case 2: {  // object key (and the same literal as the value)
      Document doc;
      parse_text(doc, padding + "{" + lit + ":" + lit + ",\"k2\":7}");
      if (!(m = verdict(doc, "object key")).empty()) return m;
      if (e.accept) {
        if (!doc.IsObject() || doc.Size() != 2) return "object key: wrong shape";
        if (!(m = same(doc.MemberBegin()->name.GetStringView(), "object key")).empty()) return m;
        if (!(m = same(doc.MemberBegin()->value.GetStringView(), "object value")).empty()) return m;
        if (e.bytes != "k2") {
          auto it = doc.FindMember(sonic_json::StringView(e.bytes.data(), e.bytes.size()));
          if (it != doc.MemberBegin()) return "object key: FindMember(decoded key) does not find it";
        }
      }
      return "";
    }
    case 3: {  // on-demand key lookup by the decoded key
      if (!e.accept) return "";
      std::string text = padding + "{\"zz\":0," + lit + ":12345,\"yy\":{}}";
      std::unique_ptr<char[]> buf(new char[text.size()]);
      memcpy(buf.get(), text.data(), text.size());
      JsonPointer jp;
      jp /= JsonPointerNode(e.bytes);
      sonic_json::StringView target;
      ParseResult r = GetOnDemand(sonic_json::StringView(buf.get(), text.size()), jp, target);
      if (e.bytes == "zz") return "";
      if (e.bytes == "yy") return "";
      if (r.Error() != kErrorNone) {
        snprintf(b, sizeof b, "on-demand key: decoded key not found (error %d)", (int)r.Error());
        return b;
      }
      if (std::string(target.data(), target.size()) != "12345") return "on-demand key: wrong slice " + printable(std::string(target.data(), target.size()), 60);
      return "";
    }
    case 6: {  // on-demand scan that has to step OVER this literal (a member name before the wanted, longer key)
      std::string wanted(body.size() + 9, 'w');
      std::string text = padding + "{" + lit + ":0,\"" + wanted + "\":12345,\"yy\":{}}";
      std::unique_ptr<char[]> buf(new char[text.size()]);
      memcpy(buf.get(), text.data(), text.size());
      JsonPointer jp;
      jp /= JsonPointerNode(wanted);
      sonic_json::StringView target;
      ParseResult r = GetOnDemand(sonic_json::StringView(buf.get(), text.size()), jp, target);
      if (e.accept) {
        if (e.bytes == wanted) return "";
        if (r.Error() != kErrorNone) {
          snprintf(b, sizeof b, "on-demand scan over a valid key: wanted member not found (error %d)", (int)r.Error());
          return b;
        }
        if (std::string(target.data(), target.size()) != "12345") return "on-demand scan over a valid key: wrong slice " + printable(std::string(target.data(), target.size()), 60);
        return "";
      }
      // a member name with a malformed ESCAPE (unknown escape letter, bad \u digits, unpaired / misordered surrogate) is decoded
      // while scanning and must make the lookup fail; raw control bytes in names without escapes are C11's latitude
      if (e.code == kParseErrorEscapedFormat || e.code == kParseErrorEscapedUnicode) {
        if (r.Error() == kErrorNone) return "on-demand scan stepped over a member name with a malformed escape and reported success";
      }
      return "";
    }
    case 5: {  // the kernel, called directly
      for (auto& K : kDecoders) {
        std::string text = padding + lit + ",1]";
        std::unique_ptr<uint8_t[]> buf(new uint8_t[text.size() + 64]);
        memcpy(buf.get(), text.data(), text.size());
        memset(buf.get() + text.size(), 0, 64);
        uint8_t* src = buf.get() + pad + 1;
        uint8_t* start = src;
        SonicError err = kErrorNone;
        size_t n = K.fn(src, err);
        bool ok = err == kErrorNone;
        if (ok != e.accept) {
          snprintf(b, sizeof b, "kernel %s: literal %s but reference says %s (code %d)", K.name, ok ? "accepted" : "rejected", e.accept ? "accept" : "reject", (int)err);
          return b;
        }
        if (ok) {
          if (!(m = same(sonic_json::StringView((const char*)start, n), K.name)).empty()) return "kernel " + m;
          if (src != start + body.size() + 1) return std::string("kernel ") + K.name + ": cursor is not just behind the closing quote";
        } else {
          int code = (int)err;
          if (code != kParseErrorUnEscaped && code != kParseErrorEscapedFormat && code != kParseErrorEscapedUnicode) {
            snprintf(b, sizeof b, "kernel %s: rejected with code %d which is not a string error class", K.name, code);
            return b;
          }
          if (e.code && code != e.code) {
            snprintf(b, sizeof b, "kernel %s: rejected with code %d, expected %d", K.name, code, e.code);
            return b;
          }
        }
      }
      return "";
    }
    default: {  // UpdateLazy decodes keys of both sides
      if (!e.accept) return "";
      // (a second, short escaped name follows in the same object: decoding it must not disturb the first one)
      std::string t = "{" + lit + ":1,\"p\":2,\"e\\n\":9}";
      std::string s = "{\"q\":3," + lit + ":{\"n\":4}}";
      std::string out = UpdateLazy(t, s);
      refjson::Result r = refjson::parse(out);
      if (!r.ok) return "UpdateLazy: result is not valid JSON: " + printable(out, 200);
      MV want = MV::obj();
      MV inner = MV::obj();
      inner.o.emplace_back("n", MV::uint(4));
      if (e.bytes == "p") {
        want.o.emplace_back("p", MV::uint(2));  // t = {"p":1,"p":2}: duplicate keys - outside the property
        return "";
      }
      if (e.bytes == "q" || e.bytes == "e\n") return "";
      want.o.emplace_back(e.bytes, inner);
      want.o.emplace_back("p", MV::uint(2));
      want.o.emplace_back("e\n", MV::uint(9));
      want.o.emplace_back("q", MV::uint(3));
      if (!eq_unordered(want, r.value)) return "UpdateLazy: merged value wrong: " + printable(out, 200) + " expected " + mv_show(want, 200);
      return "";
    }
  }
}

// mode 0: plain ASCII; 1: ASCII mixed with bytes >= 0x80 (all of them: the library copies bytes verbatim, UTF-8 or not);
// 2: any byte a literal may hold unescaped (0x20..0xff except quote and backslash)
static void filler(Src& s, std::string& o, size_t n, int mode = 0) {
  static const char plain[] = "abcdefghijklmnopqrstuvwxyz0123456789 _-";
  for (size_t i = 0; i < n; i++) {
    if (mode == 1 && s.coin(1, 3)) o.push_back((char)s.pick(0x80, 0xff));
    else if (mode == 2) {
      unsigned char ch = (unsigned char)s.pick(0x20, 0xff);
      o.push_back(ch == '"' || ch == '\\' ? (char)0x7f : (char)ch);
    } else
      o.push_back(plain[s.index(sizeof plain - 1)]);
  }
}

static std::string u_escape(Src& s, unsigned v) {
  char b[16];
  snprintf(b, sizeof b, s.coin(1, 2) ? "\\u%04x" : "\\u%04X", v & 0xffff);
  return b;
}

static void property(Src& s, Case& c) {
  size_t off = (size_t)s.pick(0, 69);
  std::string feature, kind;
  if (g_exh) {
    // 256 consecutive \u values per case: together the cases cover all 65536 values
    unsigned hi = (unsigned)(c.index % 256);
    static const int exh_ctx[] = {0, 1, 2, 5};
    int ctx = exh_ctx[(c.index / 256) % 4];
    size_t pad = (size_t)s.pick(0, 40);
    std::string pre, suf;
    filler(s, pre, off);
    filler(s, suf, (size_t)s.pick(0, 40));
    for (unsigned lo = 0; lo < 256; lo++) {
      unsigned v = hi * 256 + lo;
      char b[16];
      snprintf(b, sizeof b, (lo & 1) ? "\\u%04x" : "\\u%04X", v);
      std::string body = pre + b + suf;
      c.note("body", body);
      c.note("ctx", std::to_string(ctx));
      c.note("pad", std::to_string(pad));
      std::string m = judge(body, ctx, pad, c);
      c.subevals++;
      if (!m.empty()) c.fail(m + " | body=" + printable(body, 200) + " ctx=" + std::to_string(ctx));
    }
    g_u_seen += 256;
    c.nt();
    c.cls("exhaustive-u:offset%16=" + std::to_string(off % 16));
    if (c.counting) c.desc("all \\u" + std::to_string(hi) + "xx at offset " + std::to_string(off) + " ctx " + std::to_string(ctx));
    return;
  }
  if (g_exh_pairs) {
    // one high surrogate per case followed by EVERY low surrogate (1024 accepted pairs), and by 96 second escapes that are
    // not low surrogates (boundaries of the ranges + spread): together the cases cover all 1024 x 1024 pairs
    unsigned hi = 0xd800 + (unsigned)(c.index % 1024);
    static const int exh_ctx2[] = {0, 1, 2, 5};
    int ctx = exh_ctx2[(c.index / 1024) % 4];
    size_t pad = (size_t)s.pick(0, 40);
    std::string pre, suf;
    filler(s, pre, off);
    filler(s, suf, (size_t)s.pick(0, 40));
    char b[32];
    auto one = [&](unsigned second) {
      snprintf(b, sizeof b, (second & 1) ? "\\u%04x\\u%04X" : "\\u%04X\\u%04x", hi, second);
      std::string body = pre + b + suf;
      c.note("body", body);
      c.note("ctx", std::to_string(ctx));
      c.note("pad", std::to_string(pad));
      std::string m = judge(body, ctx, pad, c);
      c.subevals++;
      if (!m.empty()) c.fail(m + " | body=" + printable(body, 200) + " ctx=" + std::to_string(ctx));
    };
    for (unsigned lo = 0xdc00; lo <= 0xdfff; lo++) one(lo);
    static const unsigned edges[] = {0x0000, 0x0041, 0xd7ff, 0xd800, 0xd801, 0xdbfe, 0xdbff, 0xe000, 0xe001, 0xfffe, 0xffff, 0x005c, 0x0022, 0x00dc, 0xdc};
    for (unsigned e : edges) one(e);
    for (int k = 0; k < 81; k++) {
      unsigned v = (unsigned)s.pick(0, 0xffff);
      if (v >= 0xdc00 && v <= 0xdfff) v -= 0x400;
      one(v);
    }
    g_pairs_seen += 1024;
    c.nt();
    c.cls("exhaustive-pairs:offset%16=" + std::to_string(off % 16));
    if (c.counting) c.desc("high surrogate " + std::to_string(hi) + " x all low surrogates at offset " + std::to_string(off) + " ctx " + std::to_string(ctx));
    return;
  }
  switch (s.weighted({10, 14, 10, 12, 8, 8, 10, 6, 6, 6})) {
    case 0: {  // short escapes
      static const char* esc[] = {"\\\"", "\\\\", "\\/", "\\b", "\\f", "\\n", "\\r", "\\t"};
      feature = esc[s.index(8)];
      kind = "short-escape";
      break;
    }
    case 1: feature = u_escape(s, (unsigned)s.pick(0, 0xffff)); kind = "u-any"; break;
    case 2: {  // surrogate region, single
      feature = u_escape(s, (unsigned)s.pick(0xd7f0, 0xe010));
      kind = "u-surrogate-region-single";
      break;
    }
    case 3: {  // ordered pairs around the surrogate ranges
      static const unsigned lows[] = {0x0000, 0x0041, 0xd7ff, 0xd800, 0xdbff, 0xdc00, 0xdc01, 0xdfff, 0xe000, 0xffff};
      unsigned h = (unsigned)s.pick(0xd7f0, 0xe010);
      unsigned l = s.coin(1, 2) ? lows[s.index(10)] : (unsigned)s.pick(0, 0xffff);
      feature = u_escape(s, h) + u_escape(s, l);
      kind = "u-pair";
      break;
    }
    case 4: {  // raw byte
      unsigned char ch = (unsigned char)s.pick(0, 255);
      if (ch == '"' || ch == '\\') ch = 'x';
      feature = std::string(1, (char)ch);
      kind = ch < 0x20 ? "raw-control" : ch >= 0x80 ? "raw-high" : "raw-ascii";
      break;
    }
    case 5: {  // unknown escape letter (all 256 bytes after the backslash)
      unsigned char ch = (unsigned char)s.pick(0, 255);
      feature = std::string("\\") + (char)ch;
      if (ch == '"' ) feature = "\\\"";
      kind = "escape-letter-any";
      break;
    }
    case 6: {  // malformed \u
      std::string h = "0041";
      size_t pos = s.index(4);
      unsigned char ch = (unsigned char)s.pick(0, 255);
      if (ch == '"' || ch == '\\') ch = 'g';
      h[pos] = (char)ch;
      feature = "\\u" + h;
      if (s.coin(1, 4)) feature = "\\u" + h.substr(0, s.index(4));  // too few digits (then filler follows)
      kind = "u-malformed";
      break;
    }
    case 7: {  // high surrogate followed by something else
      unsigned h = (unsigned)s.pick(0xd800, 0xdbff);
      static const char* follow[] = {"", "x", "\\n", "\\u0041", "\\ud800", "\\\\", "\\udbff", "\\ue000"};
      feature = u_escape(s, h) + follow[s.index(8)];
      kind = "high-surrogate-unpaired";
      break;
    }
    case 8: {  // lone low surrogate / low then high
      unsigned l = (unsigned)s.pick(0xdc00, 0xdfff);
      feature = u_escape(s, l);
      if (s.coin(1, 2)) feature += u_escape(s, (unsigned)s.pick(0xd800, 0xdbff));
      kind = "low-surrogate-first";
      break;
    }
    default: {  // run of consecutive escapes crossing a block edge
      int n = s.range(2, 12);
      for (int i = 0; i < n; i++) {
        switch (s.weighted({4, 3, 1})) {
          case 0: {
            static const char* esc[] = {"\\\"", "\\\\", "\\/", "\\b", "\\f", "\\n", "\\r", "\\t"};
            feature += esc[s.index(8)];
            break;
          }
          case 1: {
            unsigned v = (unsigned)s.pick(0, 0xffff);
            if (v >= 0xd800 && v <= 0xdfff) v = 0x20ac;
            feature += u_escape(s, v);
            break;
          }
          default: {
            unsigned v = (unsigned)s.pick(0x10000, 0x10ffff) - 0x10000;
            feature += u_escape(s, 0xd800 + (v >> 10)) + u_escape(s, 0xdc00 + (v & 0x3ff));
          }
        }
      }
      kind = "escape-run";
      break;
    }
  }
  std::string pre, suf;
  int fmode = (int)s.weighted({6, 2, 2});
  filler(s, pre, off, fmode);
  static const int sufl[] = {0, 1, 5, 14, 15, 16, 17, 31, 32, 33, 40, 100, 200};
  filler(s, suf, (size_t)sufl[s.index(13)], fmode);
  if (fmode) c.cls("filler:high-bytes");
  if (s.coin(1, 3)) {
    // a valid escape somewhere before the feature: everything after it is handled by the decoder's post-escape path
    static const char* ve[] = {"\\n", "\\\\", "\\\"", "\\u00e9", "\\u20AC", "\\ud83d\\ude00", "\\/"};
    pre.insert((size_t)s.pick(0, pre.size()), ve[s.index(7)]);
    c.cls("escape-before-feature");
    if (fmode) c.cls("escape-before-feature+high-bytes");
  }
  // sometimes a second feature further on (two features: class not demanded when both are faults)
  if (s.coin(1, 10)) suf += feature;
  std::string body = pre + feature + suf;
  int ctx = (int)s.index(7);
  size_t pad = s.coin(1, 2) ? 0 : (size_t)s.pick(0, 70);
  c.note("body", body);
  c.note("ctx", std::to_string(ctx));
  c.note("pad", std::to_string(pad));
  static const char* cn[] = {"root", "array", "key", "ondemand-key", "updatelazy-key", "kernel", "ondemand-scan-over-key"};
  c.cls("feature:" + kind);
  c.cls(std::string("ctx:") + cn[ctx]);
  c.cls("offset%32=" + std::to_string((off + pad + 1) % 32 / 8 * 8) + "..");
  Expect e = expectation(body);
  c.cls(e.accept ? "valid-literal" : "invalid-literal");
  c.nt(!e.accept || (body.size() >= 16 && (body.find('\\') != std::string::npos)) || kind == "raw-high" || kind == "raw-control");
  if (c.counting) c.desc(std::string(cn[ctx]) + " pad=" + std::to_string(pad) + " \"" + printable(body, 100) + "\"");
  std::string m = judge(body, ctx, pad, c);
  if (m.empty() && e.accept && s.coin(1, 100)) {
    // four threads look escaped keys up in texts of their own at the same time: decoding a key is a function of its literal only
    c.cls("four-threads");
    std::string lits[4] = {"\"" + body + "\"", "\"t\\tb\"", "\"" + body + "\\n" + "\"", "\"q\\\"" + std::string(20, 'z') + "\""};
    std::string keys[4];
    bool usable = true;
    for (int t = 0; t < 4; t++) {
      std::string inner = lits[t].substr(1, lits[t].size() - 2);
      bool bs = false;
      if (refjson::unescape(inner.data(), inner.size(), keys[t], &bs) != refjson::kNone || bs) usable = false;
    }
    if (usable) {
      std::string bad[4];
      std::vector<std::thread> th;
      for (int t = 0; t < 4; t++)
        th.emplace_back([&, t] {
          std::string text = "{\"a\\u0041\":0,\"zz\\n\":1," + lits[t] + ":" + std::to_string(1000 + t) + ",\"yy\":{}}";
          JsonPointer jp;
          jp /= JsonPointerNode(keys[t]);
          for (int rep = 0; rep < 400 && bad[t].empty(); rep++) {
            sonic_json::StringView target;
            ParseResult r = GetOnDemand(sonic_json::StringView(text.data(), text.size()), jp, target);
            if (keys[t] == "aA" || keys[t] == "zz\n" || keys[t] == "yy") break;
            if (r.Error() != kErrorNone || std::string(target.data(), target.size()) != std::to_string(1000 + t))
              bad[t] = "error " + std::to_string((int)r.Error()) + " slice " + printable(std::string(target.data(), target.size()), 40);
          }
        });
      for (auto& x : th) x.join();
      c.subevals += 1600;
      for (int t = 0; t < 4 && m.empty(); t++)
        if (!bad[t].empty()) m = "with four threads looking up escaped keys in their own texts, thread " + std::to_string(t) + " got " + bad[t];
    }
  }
  if (!m.empty()) c.fail(m + " | body=" + printable(body, 300) + " ctx=" + cn[ctx] + " pad=" + std::to_string(pad));
}

static void direct(const Fields& f, Case& c) {
  const std::string* body = field(f, "body");
  if (!body) c.fail("replay has no body field");
  // an unescaped quote inside the body would end the literal early: outside this harness's domain
  for (size_t i = 0; i < body->size(); i++) {
    if ((*body)[i] == '\\') { i++; continue; }
    if ((*body)[i] == '"') return;
  }
  if (!body->empty() && body->back() == '\\') {
    size_t n = 0;
    for (size_t i = body->size(); i > 0 && (*body)[i - 1] == '\\'; i--) n++;
    if (n % 2 == 1) return;  // trailing backslash would escape the closing quote
  }
  int ctx = field(f, "ctx") ? atoi(field(f, "ctx")->c_str()) : -1;
  size_t pad = field(f, "pad") ? (size_t)atoi(field(f, "pad")->c_str()) : 0;
  for (int k = 0; k < 7; k++) {
    if (ctx >= 0 && ctx != k) continue;
    std::string m = judge(*body, k, pad, c);
    if (!m.empty()) c.fail(m + " | body=" + printable(*body, 300) + " ctx=" + std::to_string(k));
  }
}

}  // namespace

#ifdef VF_FUZZ
extern "C" int LLVMFuzzerTestOneInput(const uint8_t* data, size_t size) {
  static HarnessDef def{"fz_string", "C05", nullptr, direct, nullptr, nullptr};
  return fuzz_bytes(def, data, size, "body");
}
#else
VF_HARNESS_MAIN((HarnessDef{"c05_strings", "C05", property, direct, [] { g_exh = arg_value("exhaustive-u") != nullptr; g_exh_pairs = arg_value("exhaustive-pairs") != nullptr; },
                            [](std::map<std::string, std::string>& e) {
                              if (g_exh) e["u_values_enumerated"] = std::to_string(g_u_seen);
                              if (g_exh_pairs) e["surrogate_pairs_enumerated"] = std::to_string(g_pairs_seen);
                            }}))
#endif
