// C15 (second harness) - the runtime-dispatch build carries two clones of every multi-versioned kernel (SSE and AVX2); the
// resolver selects one per host, so on this host the SSE clones would never execute. Here the dispatcher, the SSE clone and
// the AVX2 clone of each kernel are called directly on the same input and must agree: a user on a CPU without AVX2 gets the
// SSE clone, and the property demands that the dispatch build computes the same results everywhere.
// Kernels: SkipString, SkipContainer, skip_space_safe (bounded scanners of the on-demand paths), parseStringInplace, Quote.
// Oracle: differential between the three; the dispatcher (= AVX2 clone here) is tied to reference models by the
// dynamic-dispatch units of C05 / C09 / C10 / C11 and to the static builds by the configuration digest.
#include <cstring>
#include <memory>

#include "common/genjson.hpp"
#include "common/harness.hpp"
#include "common/mutate.hpp"
#include "common/refjson.hpp"
#include "sonic/sonic.h"

#ifndef SONIC_DYNAMIC_DISPATCH
#error "this harness is meant for the -DSONIC_DYNAMIC_DISPATCH build"
#endif

using namespace vf;
using namespace sonic_json;

namespace {

#define WSM __attribute__((target(SONIC_WESTMERE)))
#define HSW __attribute__((target(SONIC_HASWELL)))

struct R {
  long ret = 0;
  size_t pos = 0;
  std::string out;  // produced bytes, when the kernel writes
  int err = 0;
  bool operator==(const R& o) const { return ret == o.ret && pos == o.pos && out == o.out && err == o.err; }
  std::string show() const {
    return "ret=" + std::to_string(ret) + " pos=" + std::to_string(pos) + " err=" + std::to_string(err) + " out=" + printable(out, 60);
  }
};

// ---- SkipString(data, pos, len): pos just behind an opening quote (the cursor is only defined when the string is closed)
static R ss_d(const uint8_t* d, size_t pos, size_t len) { R r; r.ret = internal::SkipString(d, pos, len); r.pos = r.ret ? pos : 0; return r; }
WSM static R ss_s(const uint8_t* d, size_t pos, size_t len) { R r; r.ret = internal::sse::SkipString(d, pos, len); r.pos = r.ret ? pos : 0; return r; }
HSW static R ss_a(const uint8_t* d, size_t pos, size_t len) { R r; r.ret = internal::avx2::SkipString(d, pos, len); r.pos = r.ret ? pos : 0; return r; }
// ---- SkipContainer(data, pos, len, left, right): pos just behind the opening bracket
static R sc_d(const uint8_t* d, size_t pos, size_t len, uint8_t l, uint8_t rr) { R r; r.ret = internal::SkipContainer(d, pos, len, l, rr); r.pos = pos; return r; }
WSM static R sc_s(const uint8_t* d, size_t pos, size_t len, uint8_t l, uint8_t rr) { R r; r.ret = internal::sse::SkipContainer(d, pos, len, l, rr); r.pos = pos; return r; }
HSW static R sc_a(const uint8_t* d, size_t pos, size_t len, uint8_t l, uint8_t rr) { R r; r.ret = internal::avx2::SkipContainer(d, pos, len, l, rr); r.pos = pos; return r; }
// ---- skip_space_safe(data, pos, len, bits_end, bits) with a fresh cache, twice in a row (second call uses the cached block)
static R sp_d(const uint8_t* d, size_t pos, size_t len) {
  R r; size_t e = 0; uint64_t b = 0;
  r.ret = internal::skip_space_safe(d, pos, len, e, b);
  if (pos < len) { size_t p2 = pos; r.err = internal::skip_space_safe(d, p2, len, e, b); r.out = std::to_string(p2); }
  r.pos = pos; return r;
}
WSM static R sp_s(const uint8_t* d, size_t pos, size_t len) {
  R r; size_t e = 0; uint64_t b = 0;
  r.ret = internal::sse::skip_space_safe(d, pos, len, e, b);
  if (pos < len) { size_t p2 = pos; r.err = internal::sse::skip_space_safe(d, p2, len, e, b); r.out = std::to_string(p2); }
  r.pos = pos; return r;
}
HSW static R sp_a(const uint8_t* d, size_t pos, size_t len) {
  R r; size_t e = 0; uint64_t b = 0;
  r.ret = internal::avx2::skip_space_safe(d, pos, len, e, b);
  if (pos < len) { size_t p2 = pos; r.err = internal::avx2::skip_space_safe(d, p2, len, e, b); r.out = std::to_string(p2); }
  r.pos = pos; return r;
}
// ---- parseStringInplace(src, err) on a private padded copy
template <class F>
static R decode_with(F f, const std::string& text, size_t pos) {
  std::unique_ptr<uint8_t[]> buf(new uint8_t[text.size() + 64]);
  memcpy(buf.get(), text.data(), text.size());
  memset(buf.get() + text.size(), 0, 64);
  uint8_t* src = buf.get() + pos;
  SonicError e = kErrorNone;
  R r;
  size_t n = f(src, e);
  r.err = (int)e;
  // inside a malformed literal the fault is detected per vector block: only accept/reject and the class are comparable
  if (e != kErrorNone) { r.err = -1; return r; }
  r.ret = (long)n;
  r.pos = (size_t)(src - buf.get());
  r.out.assign((const char*)buf.get() + pos, n);
  return r;
}
static size_t pd(uint8_t*& s, SonicError& e) { return internal::parseStringInplace(s, e); }
WSM static size_t ps(uint8_t*& s, SonicError& e) { return internal::sse::parseStringInplace(s, e); }
HSW static size_t pa(uint8_t*& s, SonicError& e) { return internal::avx2::parseStringInplace(s, e); }
// ---- Quote(src, n, dst)
template <class F>
static R quote_with(F f, const char* src, size_t n) {
  std::unique_ptr<char[]> dst(new char[6 * n + 32 + 3]);
  R r;
  char* e = f(src, n, dst.get());
  r.ret = (long)(e - dst.get());
  if (r.ret >= 0 && (size_t)r.ret <= 6 * n + 2) r.out.assign(dst.get(), (size_t)r.ret);
  return r;
}
static char* qd(const char* s, size_t n, char* d) { return internal::Quote(s, n, d); }
WSM static char* qs(const char* s, size_t n, char* d) { return internal::sse::Quote(s, n, d); }
HSW static char* qa(const char* s, size_t n, char* d) { return internal::avx2::Quote(s, n, d); }

static std::string three(const char* kernel, size_t pos, const R& d, const R& s, const R& a) {
  if (d == s && d == a) return "";
  return std::string(kernel) + " at offset " + std::to_string(pos) + ": dispatcher {" + d.show() + "} sse-clone {" + s.show() + "} avx2-clone {" + a.show() + "}";
}

static std::string judge(const std::string& text, Case& c) {
  const size_t len = text.size();
  // exact-size heap copy: the bounded scanners must stay inside it (ASan build)
  std::unique_ptr<uint8_t[]> buf(new uint8_t[len ? len : 1]);
  memcpy(buf.get(), text.data(), len);
  const uint8_t* d = buf.get();
  std::string m;
  size_t strings = 0, containers = 0, spaces = 0;
  for (size_t i = 0; i < len; i++) {
    uint8_t ch = d[i];
    if (ch == '"' && strings < 40) {
      strings++;
      if (!(m = three("SkipString", i + 1, ss_d(d, i + 1, len), ss_s(d, i + 1, len), ss_a(d, i + 1, len))).empty()) return m;
      if (!(m = three("parseStringInplace", i + 1, decode_with(pd, text, i + 1), decode_with(ps, text, i + 1), decode_with(pa, text, i + 1))).empty()) return m;
      c.subevals += 2;
    } else if ((ch == '[' || ch == '{') && containers < 40) {
      containers++;
      uint8_t r = ch == '[' ? ']' : '}';
      if (!(m = three("SkipContainer", i + 1, sc_d(d, i + 1, len, ch, r), sc_s(d, i + 1, len, ch, r), sc_a(d, i + 1, len, ch, r))).empty()) return m;
      c.subevals++;
    } else if ((ch == ' ' || ch == '\n' || ch == '\t' || ch == '\r') && (i == 0 || d[i - 1] != ch) && spaces < 40) {
      spaces++;
      if (!(m = three("skip_space_safe", i, sp_d(d, i, len), sp_s(d, i, len), sp_a(d, i, len))).empty()) return m;
      c.subevals++;
    }
  }
  if (len == 0 || strings == 0) {
    if (!(m = three("skip_space_safe", 0, sp_d(d, 0, len), sp_s(d, 0, len), sp_a(d, 0, len))).empty()) return m;
  }
  // Quote over slices of the text (any bytes), ending at the end of the exact-size block
  for (size_t start : {(size_t)0, len / 3, len - std::min<size_t>(len, 17), len - std::min<size_t>(len, 1)}) {
    const char* p = (const char*)d + start;
    size_t n = len - start;
    if (n > 400) n = 400, p = (const char*)d + len - 400;
    if (!(m = three("Quote", (size_t)(p - (const char*)d), quote_with(qd, p, n), quote_with(qs, p, n), quote_with(qa, p, n))).empty()) return m;
    c.subevals++;
  }
  return "";
}

static void property(Src& s, Case& c) {
  GenOpts go;
  static const int kNodes[] = {3, 10, 30, 80};
  go.max_nodes = std::min(kNodes[s.index(4)], 4 + c.size);
  go.max_depth = 6;
  go.prefer_container_root = true;
  MV v = gen_value(s, go);
  Layout lay;
  lay.ws = (int)s.weighted({3, 4, 3});
  lay.pad_max = 70;
  std::string text = render(s, v, lay), what = "valid";
  size_t mode = s.weighted({5, 4, 2, 1});
  if (mode == 1) what = mutate_text(s, text);
  else if (mode == 2) { text.resize(s.index(text.size() + 1)); what = "truncated"; }
  else if (mode == 3) { text = dense_text(s); what = "dense"; }
  c.note("text", text);
  c.cls("input:" + what.substr(0, what.find('@')));
  c.cls("len%16=" + std::to_string(text.size() % 16 / 4 * 4) + "..");
  c.nt(text.size() >= 17);
  if (c.counting) c.desc(what + " | " + printable(text, 120));
  std::string m = judge(text, c);
  if (!m.empty()) c.fail(m + " | text=" + printable(text, 300));
}

static void direct(const Fields& f, Case& c) {
  const std::string* t = field(f, "text");
  if (!t) c.fail("replay has no text field");
  std::string m = judge(*t, c);
  if (!m.empty()) c.fail(m);
}

}  // namespace

VF_HARNESS_MAIN((HarnessDef{"c15_clones", "C15", property, direct, nullptr, nullptr}))
