// C08 - 64-bit integers print as their exact decimal representation.
// Oracle: snprintf. The two 8-digit kernels are enumerated in blocks of 65536 values (all 10^8 values in the
// thorough tier); the composition is checked at every digit-count boundary and on random values, directly and
// through Serialize, with a 33-byte write bound and a parse-back of kind and value.
#include <cstring>
#include <memory>

#include "common/harness.hpp"
#include "common/refjson.hpp"
#include "common/sonic_mv.hpp"

using namespace vf;
using namespace sonic_json;

namespace {

static uint64_t g_blocks = 0;
static const uint32_t kBlocks = (100000000u + 65535u) / 65536u;  // 1526

struct Buf {
#if defined(VF_CANARY)
  char raw[64];
  Buf() { memset(raw, 0x5A, sizeof raw); }
  char* p() { return raw; }
  bool intact() const {
    for (int i = 33; i < 64; i++)
      if (raw[i] != 0x5A) return false;
    return true;
  }
#else
  std::unique_ptr<char[]> h{new char[33]};  // exactly what the serializer reserves: ASan guards the rest
  char* p() { return h.get(); }
  bool intact() const { return true; }
#endif
};

static std::string check_u64(uint64_t v, bool through_doc) {
  char want[32];
  int wn = snprintf(want, sizeof want, "%llu", (unsigned long long)v);
  Buf b;
  char* e = internal::U64toa(b.p(), v);
  if (!b.intact()) return "U64toa wrote beyond 33 bytes";
  if (e - b.p() != wn || memcmp(b.p(), want, (size_t)wn) != 0)
    return "U64toa(" + std::string(want) + ") produced " + printable(std::string(b.p(), (size_t)std::max<long>(0, std::min<long>(e - b.p(), 32))));
  if (through_doc) {
    Document d;
    d.SetUint64(v);
    std::string s = d.Dump();
    if (s != want) return "Serialize(uint64 " + std::string(want) + ") produced " + printable(s);
    Document p;
    p.Parse(s.data(), s.size());
    if (p.HasParseError() || !p.IsUint64() || p.GetUint64() != v) return "parse-back of " + s + " lost the value or kind";
  }
  return "";
}
static std::string check_i64(int64_t v, bool through_doc) {
  char want[32];
  int wn = snprintf(want, sizeof want, "%lld", (long long)v);
  Buf b;
  char* e = internal::I64toa(b.p(), v);
  if (!b.intact()) return "I64toa wrote beyond 33 bytes";
  if (e - b.p() != wn || memcmp(b.p(), want, (size_t)wn) != 0)
    return "I64toa(" + std::string(want) + ") produced " + printable(std::string(b.p(), (size_t)std::max<long>(0, std::min<long>(e - b.p(), 32))));
  if (through_doc) {
    Document d;
    d.SetInt64(v);
    std::string s = d.Dump();
    if (s != want) return "Serialize(int64 " + std::string(want) + ") produced " + printable(s);
    Document p;
    p.Parse(s.data(), s.size());
    bool kind_ok = v < 0 ? (p.IsInt64() && !p.IsUint64() && p.GetInt64() == v) : (p.IsUint64() && p.GetUint64() == (uint64_t)v);
    if (p.HasParseError() || !kind_ok) return "parse-back of " + s + " lost the value or kind";
  }
  return "";
}

static std::string kernel_block(uint32_t block) {
  uint32_t lo = block * 65536u, hi = std::min<uint32_t>(lo + 65536u, 100000000u);
  char want[32];
  alignas(16) char out[48];
  for (uint32_t v = lo; v < hi; v++) {
    // Utoa_8: exactly 8 digits, zero padded
    char* e = internal::Utoa_8(v, out);
    snprintf(want, sizeof want, "%08u", v);
    if (e != out + 8 || memcmp(out, want, 8) != 0) return "Utoa_8(" + std::to_string(v) + ") produced " + printable(std::string(out, 8));
    // Utoa_1_8: no leading zeros
    e = internal::Utoa_1_8(out, v);
    int wn = snprintf(want, sizeof want, "%u", v);
    if (e - out != wn || memcmp(out, want, (size_t)wn) != 0)
      return "Utoa_1_8(" + std::to_string(v) + ") produced " + printable(std::string(out, (size_t)std::max<long>(0, std::min<long>(e - out, 16))));
  }
  return "";
}

static void property(Src& s, Case& c) {
  bool kernels = arg_value("kernels") != nullptr;
  if (kernels) {
    // sharded complete enumeration: worker k of n takes blocks k, k+n, k+2n, ...
    uint32_t block = (uint32_t)((c.index * (uint64_t)arg_long("shards", 1) + (uint64_t)arg_long("shard", 0)) % kBlocks);
    c.note("block", std::to_string(block));
    std::string m = kernel_block(block);
    c.subevals += 2 * 65536;
    g_blocks++;
    c.nt();
    c.cls("kernel-block");
    if (c.counting) c.desc("Utoa_8/Utoa_1_8 for all v in block " + std::to_string(block) + " [" + std::to_string(block * 65536u) + ", +65536)");
    if (!m.empty()) c.fail(m);
    // Utoa_16 on (hi, lo) pairs built from this block
    alignas(16) char out[48];
    char want[32];
    for (int k = 0; k < 64; k++) {
      uint64_t hi = s.pick(0, 99999999), lo = (uint64_t)block * 65536u % 100000000u + s.pick(0, 65535);
      if (lo >= 100000000u) lo = 99999999;
      uint64_t v = hi * 100000000ull + lo;
      internal::Utoa_16(v, out);
      snprintf(want, sizeof want, "%016llu", (unsigned long long)v);
      c.subevals++;
      if (memcmp(out, want, 16) != 0) c.fail("Utoa_16(" + std::to_string(v) + ") produced " + printable(std::string(out, 16)));
    }
    return;
  }
  uint64_t v;
  std::string kind;
  switch (s.weighted({25, 20, 20, 15, 20})) {
    case 0: {  // 10^k - 1, 10^k, 10^k + 1
      uint64_t p = 1;
      int k = s.range(0, 19);
      for (int i = 0; i < k; i++) p *= 10;
      v = p + (uint64_t)s.range(0, 2) - 1;
      kind = "pow10-boundary";
      break;
    }
    case 1: {  // 2^k +- 1
      int k = s.range(0, 63);
      v = (1ull << k) + (uint64_t)s.range(0, 2) - 1;
      if (s.coin(1, 8)) v = ~0ull - s.pick(0, 2);
      kind = "pow2-boundary";
      break;
    }
    case 2: {  // each digit count
      int nd = s.range(1, 20);
      uint64_t lo = 1, hi;
      for (int i = 1; i < nd; i++) lo *= 10;
      hi = nd == 20 ? ~0ull : lo * 10 - 1;
      v = s.pick(lo, hi);
      kind = "digit-count";
      break;
    }
    case 3: {  // 8-digit groups equal to 0 / 1 / 99999999
      static const uint64_t g[] = {0, 1, 99999999, 10000000, 9999999, 12345678};
      uint64_t a = g[s.index(6)], b = g[s.index(6)], cc = s.pick(0, 1844);
      v = (cc * 100000000ull + a) * 100000000ull + b;
      kind = "group-pattern";
      break;
    }
    default: v = s.u64(); kind = "random"; break;
  }
  bool sign = s.coin(1, 2);
  bool through = s.coin(1, 4);
  c.note("v", std::to_string(v));
  c.note("signed", sign ? "1" : "0");
  c.cls("class:" + kind);
  c.cls(sign ? "signed" : "unsigned");
  c.nt(v >= 100000000ull || (sign && (int64_t)v < 0));
  if (c.counting) c.desc((sign ? "int64 " + std::to_string((int64_t)v) : "uint64 " + std::to_string(v)));
  std::string m = sign ? check_i64((int64_t)v, through) : check_u64(v, through);
  if (!m.empty()) c.fail(m);
}

static void direct(const Fields& f, Case& c) {
  if (const std::string* b = field(f, "block")) {
    std::string m = kernel_block((uint32_t)atol(b->c_str()) % kBlocks);
    if (!m.empty()) c.fail(m);
    return;
  }
  const std::string* v = field(f, "v");
  if (!v) c.fail("replay has no v field");
  uint64_t x = strtoull(v->c_str(), nullptr, 10);
  std::string m = check_u64(x, true);
  if (m.empty()) m = check_i64((int64_t)x, true);
  if (!m.empty()) c.fail(m);
}

}  // namespace

VF_HARNESS_MAIN((HarnessDef{"c08_itoa", "C08", property, direct, nullptr, [](std::map<std::string, std::string>& e) {
                              e["kernel_blocks_enumerated"] = std::to_string(g_blocks);
                              e["kernel_blocks_total"] = std::to_string(kBlocks);
                            }}))
