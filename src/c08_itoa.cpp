// C08 - 64-bit integers print as their exact decimal representation.
// Oracle: snprintf. The two 8-digit kernels are enumerated in blocks of 65536 values (all 10^8 values in the
// thorough tier); the composition is checked at every digit-count boundary and on random values, directly and
// through Serialize, with a 33-byte write bound and a parse-back of kind and value.
#include <cstring>
#include <memory>
#include <thread>

#include "common/harness.hpp"
#include "common/wb_edge.hpp"
#include "common/refjson.hpp"
#include "common/sonic_mv.hpp"

using namespace vf;
using namespace sonic_json;

namespace {

static uint64_t g_blocks = 0;
static const uint32_t kBlocks = (100000000u + 65535u) / 65536u;  // 1526

struct Buf {
#if defined(VF_CANARY)
  char raw[64];
  Buf() { memset(raw, 0x5A, sizeof raw); }
  char* p() { return raw; }
  bool intact() const {
    for (int i = 33; i < 64; i++)
      if (raw[i] != 0x5A) return false;
    return true;
  }
#else
  std::unique_ptr<char[]> h{new char[33]};  // exactly what the serializer reserves: ASan guards the rest
  char* p() { return h.get(); }
  bool intact() const { return true; }
#endif
};

// what the node held before the integer under test was stored into it (a setter must not inherit anything from the old value)
template <class D>
static void set_prior(D& d, int prior) {
  switch (prior) {
    case 1: d.SetInt64(-5); break;
    case 2: d.SetInt64(5); break;
    case 3: d.SetUint64(9223372036854775809ull); break;
    case 4: d.SetDouble(-2.5); break;
    case 5: d.SetString("previous value", 14, d.GetAllocator()); break;
    case 6: d.SetNull(); break;
    case 7: d.SetArray(); break;
    case 8: d.SetInt64(INT64_MIN); break;
    default: break;
  }
}
static int g_prior = 0;

static std::string check_u64(uint64_t v, bool through_doc) {
  char want[32];
  int wn = snprintf(want, sizeof want, "%llu", (unsigned long long)v);
  Buf b;
  char* e = internal::U64toa(b.p(), v);
  if (!b.intact()) return "U64toa wrote beyond 33 bytes";
  if (e - b.p() != wn || memcmp(b.p(), want, (size_t)wn) != 0)
    return "U64toa(" + std::string(want) + ") produced " + printable(std::string(b.p(), (size_t)std::max<long>(0, std::min<long>(e - b.p(), 32))));
  if (through_doc) {
    Document d;
    set_prior(d, g_prior);
    d.SetUint64(v);
    if (!d.IsUint64() || d.GetUint64() != v) return "SetUint64(" + std::string(want) + ") on a node that held another value: accessors disagree";
    std::string s = d.Dump();
    if (s != want) return "Serialize(uint64 " + std::string(want) + ") produced " + printable(s);
    {  // the same node into a write buffer that holds the result of an earlier serialisation
      WriteBuffer wb;
      Document other;
      other.SetInt64(-42);
      other.Serialize(wb);
      if (d.Serialize(wb) != kErrorNone || std::string(wb.ToString(), wb.Size()) != want)
        return "Serialize(uint64 " + std::string(want) + ") into a used write buffer produced " + printable(std::string(wb.ToString(), wb.Size()));
    }
    Document p;
    p.Parse(s.data(), s.size());
    if (p.HasParseError() || !p.IsUint64() || p.GetUint64() != v) return "parse-back of " + s + " lost the value or kind";
  }
  return "";
}
static std::string check_i64(int64_t v, bool through_doc) {
  char want[32];
  int wn = snprintf(want, sizeof want, "%lld", (long long)v);
  Buf b;
  char* e = internal::I64toa(b.p(), v);
  if (!b.intact()) return "I64toa wrote beyond 33 bytes";
  if (e - b.p() != wn || memcmp(b.p(), want, (size_t)wn) != 0)
    return "I64toa(" + std::string(want) + ") produced " + printable(std::string(b.p(), (size_t)std::max<long>(0, std::min<long>(e - b.p(), 32))));
  if (through_doc) {
    Document d;
    set_prior(d, g_prior);
    d.SetInt64(v);
    if (!d.IsInt64() || d.GetInt64() != v) return "SetInt64(" + std::string(want) + ") on a node that held another value: accessors disagree";
    std::string s = d.Dump();
    if (s != want) return "Serialize(int64 " + std::string(want) + ") produced " + printable(s);
    {
      WriteBuffer wb;
      Document other;
      other.Parse("[1,2,3]");
      other.Serialize(wb);
      if (d.Serialize(wb) != kErrorNone || std::string(wb.ToString(), wb.Size()) != want)
        return "Serialize(int64 " + std::string(want) + ") into a used write buffer produced " + printable(std::string(wb.ToString(), wb.Size()));
    }
    Document p;
    p.Parse(s.data(), s.size());
    bool kind_ok = v < 0 ? (p.IsInt64() && !p.IsUint64() && p.GetInt64() == v) : (p.IsUint64() && p.GetUint64() == (uint64_t)v);
    if (p.HasParseError() || !kind_ok) return "parse-back of " + s + " lost the value or kind";
  }
  return "";
}

// integers inside containers: the spelling must be exact wherever the integer lands in the write buffer (growth steps included)
// shape: 0 flat array, 1 nested arrays (each integer k levels deep), 2 object values, 3 array of [int, "text"] pairs
static std::string check_container(const std::vector<std::pair<uint64_t, bool>>& vals, int shape, int depth, bool reuse, size_t cap) {
  Document d;
  auto& a = d.GetAllocator();
  std::string want;
  auto spell = [](std::pair<uint64_t, bool> v) {
    char t[32];
    if (v.second) snprintf(t, sizeof t, "%lld", (long long)(int64_t)v.first);
    else snprintf(t, sizeof t, "%llu", (unsigned long long)v.first);
    return std::string(t);
  };
  auto mk = [&](std::pair<uint64_t, bool> v) {
    Node n;
    if (v.second) n.SetInt64((int64_t)v.first);
    else n.SetUint64(v.first);
    return n;
  };
  if (shape == 2) {
    d.SetObject();
    want = "{";
    for (size_t i = 0; i < vals.size(); i++) {
      std::string k = "k" + std::to_string(i);
      d.AddMember(k, mk(vals[i]), a, true);
      want += (i ? ",\"" : "\"") + k + "\":" + spell(vals[i]);
    }
    want += "}";
  } else {
    d.SetArray();
    Node* cur = &d;
    std::string close = "]";
    want = "[";
    int wrap = shape == 1 ? depth : 0;
    for (int i = 0; i < wrap; i++) {
      cur->PushBack(Node(kArray), a);
      cur = &cur->Back();
      want += "[";
      close += "]";
    }
    for (size_t i = 0; i < vals.size(); i++) {
      if (i) want += ",";
      if (shape == 3) {
        Node pair(kArray);
        pair.PushBack(mk(vals[i]), a);
        pair.PushBack(Node("t" + std::to_string(i), a), a);
        cur->PushBack(std::move(pair), a);
        want += "[" + spell(vals[i]) + ",\"t" + std::to_string(i) + "\"]";
      } else {
        cur->PushBack(mk(vals[i]), a);
        want += spell(vals[i]);
      }
    }
    want += close;
  }
  WriteBuffer wb(cap);
  if (reuse) {
    Document small;
    small.Parse("[1,2,3]");
    small.Serialize(wb);
    wb.Clear();
  }
  void* neighbour = malloc(64);  // something behind the buffer, so that a growth step has to move it
  SonicError e = d.Serialize(wb);
  free(neighbour);
  if (e != kErrorNone) return "Serialize of a container of integers failed with code " + std::to_string((int)e);
  std::string got(wb.ToString(), wb.Size());
  if (got != want) {
    size_t i = 0;
    while (i < got.size() && i < want.size() && got[i] == want[i]) i++;
    return "Serialize of a container of " + std::to_string(vals.size()) + " integers differs from snprintf at output byte " + std::to_string(i) +
           ": got " + printable(got.substr(i > 8 ? i - 8 : 0, 48)) + " want " + printable(want.substr(i > 8 ? i - 8 : 0, 48));
  }
  if (d.Dump() != want) return "Dump() of a container of integers differs from snprintf";
  Document p;
  p.Parse(got.data(), got.size());
  if (p.HasParseError()) return "parse-back of a container of integers failed";
  if (!(p == d)) return "parse-back of a container of integers is not equal to the document";
  return "";
}

static std::string kernel_block(uint32_t block) {
  uint32_t lo = block * 65536u, hi = std::min<uint32_t>(lo + 65536u, 100000000u);
  char want[32];
  alignas(16) char out[48];
  for (uint32_t v = lo; v < hi; v++) {
    // Utoa_8: exactly 8 digits, zero padded
    char* e = internal::Utoa_8(v, out);
    snprintf(want, sizeof want, "%08u", v);
    if (e != out + 8 || memcmp(out, want, 8) != 0) return "Utoa_8(" + std::to_string(v) + ") produced " + printable(std::string(out, 8));
    // Utoa_1_8: no leading zeros
    e = internal::Utoa_1_8(out, v);
    int wn = snprintf(want, sizeof want, "%u", v);
    if (e - out != wn || memcmp(out, want, (size_t)wn) != 0)
      return "Utoa_1_8(" + std::to_string(v) + ") produced " + printable(std::string(out, (size_t)std::max<long>(0, std::min<long>(e - out, 16))));
  }
  return "";
}

static void property(Src& s, Case& c) {
  bool kernels = arg_value("kernels") != nullptr;
  if (kernels) {
    // sharded complete enumeration: worker k of n takes blocks k, k+n, k+2n, ...
    uint32_t block = (uint32_t)((c.index * (uint64_t)arg_long("shards", 1) + (uint64_t)arg_long("shard", 0)) % kBlocks);
    c.note("block", std::to_string(block));
    std::string m = kernel_block(block);
    c.subevals += 2 * 65536;
    g_blocks++;
    c.nt();
    c.cls("kernel-block");
    if (c.counting) c.desc("Utoa_8/Utoa_1_8 for all v in block " + std::to_string(block) + " [" + std::to_string(block * 65536u) + ", +65536)");
    if (!m.empty()) c.fail(m);
    // Utoa_16 on (hi, lo) pairs built from this block
    alignas(16) char out[48];
    char want[32];
    for (int k = 0; k < 64; k++) {
      uint64_t hi = s.pick(0, 99999999), lo = (uint64_t)block * 65536u % 100000000u + s.pick(0, 65535);
      if (lo >= 100000000u) lo = 99999999;
      uint64_t v = hi * 100000000ull + lo;
      internal::Utoa_16(v, out);
      snprintf(want, sizeof want, "%016llu", (unsigned long long)v);
      c.subevals++;
      if (memcmp(out, want, 16) != 0) c.fail("Utoa_16(" + std::to_string(v) + ") produced " + printable(std::string(out, 16)));
    }
    return;
  }
  if (s.coin(1, 24)) {
    // many integers in one document: every one of them must be spelled exactly, also the one at which the write buffer grows
    static const size_t caps[] = {0, 1, 16, 33, 64, 255, 256, 257, 1024};
    size_t n = s.coin(1, 2) ? (size_t)s.pick(1, 40) : (size_t)s.pick(1, 300);
    int shape = (int)s.index(4), depth = (int)s.pick(1, 6);
    bool reuse = s.coin(1, 3);
    size_t cap = s.coin(1, 2) ? 256 : caps[s.index(9)];
    std::vector<std::pair<uint64_t, bool>> vals;
    std::string list;
    size_t style = s.index(3);
    for (size_t i = 0; i < n; i++) {
      uint64_t x = style == 0 ? s.u64() : style == 1 ? s.pick(0, 99999) : (s.coin(1, 2) ? s.u64() : s.pick(0, 9));
      bool sg = s.coin(1, 2);
      vals.push_back({x, sg});
      list += (i ? "," : "") + std::string(sg ? "i" : "u") + std::to_string(x);
    }
    c.note("ints", list);
    c.note("shape", std::to_string(shape));
    c.note("depth", std::to_string(depth));
    c.note("reuse", reuse ? "1" : "0");
    c.note("cap", std::to_string(cap));
    c.cls("class:container");
    c.cls("container:shape" + std::to_string(shape));
    if (n * 12 > std::max<size_t>(cap, 64)) c.cls("container:outgrows-initial-buffer");
    c.nt();
    c.subevals += n;
    if (c.counting) c.desc(std::to_string(n) + " integers in container shape " + std::to_string(shape) + ", buffer capacity " + std::to_string(cap));
    std::string m = check_container(vals, shape, depth, reuse, cap);
    if (m.empty() && s.coin(1, 10)) {
      // the same documents serialised by four threads at once, each thread on documents of its own: the spelling of an integer
      // must not depend on what other threads are printing
      c.cls("container:four-threads");
      std::string tm[4];
      std::vector<std::thread> th;
      for (int t = 0; t < 4; t++)
        th.emplace_back([&, t] {
          std::vector<std::pair<uint64_t, bool>> mine = vals;
          for (auto& v : mine) v.first = v.first * 0x9E3779B97F4A7C15ull + (uint64_t)t;  // other digits per thread
          for (int rep = 0; rep < 12 && tm[t].empty(); rep++) tm[t] = check_container(t == 0 ? vals : mine, shape, depth, reuse, cap);
        });
      for (auto& x : th) x.join();
      c.subevals += 48 * n;
      for (int t = 0; t < 4 && m.empty(); t++)
        if (!tm[t].empty()) m = "with four threads serialising their own documents: " + tm[t];
    }
    if (!m.empty()) c.fail(m);
    return;
  }
  uint64_t v;
  std::string kind;
  switch (s.weighted({25, 20, 20, 15, 20})) {
    case 0: {  // 10^k - 1, 10^k, 10^k + 1
      uint64_t p = 1;
      int k = s.range(0, 19);
      for (int i = 0; i < k; i++) p *= 10;
      v = p + (uint64_t)s.range(0, 2) - 1;
      kind = "pow10-boundary";
      break;
    }
    case 1: {  // 2^k +- 1
      int k = s.range(0, 63);
      v = (1ull << k) + (uint64_t)s.range(0, 2) - 1;
      if (s.coin(1, 8)) v = ~0ull - s.pick(0, 2);
      kind = "pow2-boundary";
      break;
    }
    case 2: {  // each digit count
      int nd = s.range(1, 20);
      uint64_t lo = 1, hi;
      for (int i = 1; i < nd; i++) lo *= 10;
      hi = nd == 20 ? ~0ull : lo * 10 - 1;
      v = s.pick(lo, hi);
      kind = "digit-count";
      break;
    }
    case 3: {  // 8-digit groups equal to 0 / 1 / 99999999
      static const uint64_t g[] = {0, 1, 99999999, 10000000, 9999999, 12345678};
      uint64_t a = g[s.index(6)], b = g[s.index(6)], cc = s.pick(0, 1844);
      v = (cc * 100000000ull + a) * 100000000ull + b;
      kind = "group-pattern";
      break;
    }
    default: v = s.u64(); kind = "random"; break;
  }
  bool sign = s.coin(1, 2);
  bool through = s.coin(1, 4);
  g_prior = through && s.coin(1, 2) ? (int)s.pick(1, 8) : 0;
  c.note("prior", std::to_string(g_prior));
  if (g_prior) c.cls("node-held-another-value-before");
  c.note("v", std::to_string(v));
  c.note("signed", sign ? "1" : "0");
  c.cls("class:" + kind);
  c.cls(sign ? "signed" : "unsigned");
  c.nt(v >= 100000000ull || (sign && (int64_t)v < 0));
  if (c.counting) c.desc((sign ? "int64 " + std::to_string((int64_t)v) : "uint64 " + std::to_string(v)));
  std::string m = sign ? check_i64((int64_t)v, through) : check_u64(v, through);
  if (m.empty() && s.coin(1, 64)) {  // the same integer at the end of a document, with 18..48 bytes left in the write buffer
    char want[32];
    if (sign) snprintf(want, sizeof want, "%lld", (long long)(int64_t)v);
    else snprintf(want, sizeof want, "%llu", (unsigned long long)v);
    c.cls("write-buffer-edge-sweep");
    m = wb_edge_sweep([&](Node& x) { if (sign) x.SetInt64((int64_t)v); else x.SetUint64(v); }, want, 18, 48, c.subevals);
  }
  if (!m.empty()) c.fail(m);
}

static void direct(const Fields& f, Case& c) {
  if (const std::string* b = field(f, "block")) {
    std::string m = kernel_block((uint32_t)atol(b->c_str()) % kBlocks);
    if (!m.empty()) c.fail(m);
    return;
  }
  if (const std::string* l = field(f, "ints")) {
    std::vector<std::pair<uint64_t, bool>> vals;
    size_t i = 0;
    while (i < l->size()) {
      bool sg = (*l)[i] == 'i';
      size_t e = l->find(',', i);
      if (e == std::string::npos) e = l->size();
      vals.push_back({strtoull(l->c_str() + i + 1, nullptr, 10), sg});
      i = e + 1;
    }
    auto num = [&](const char* k, long dflt) { const std::string* x = field(f, k); return x ? atol(x->c_str()) : dflt; };
    std::string m = check_container(vals, (int)num("shape", 0), (int)num("depth", 1), num("reuse", 0) != 0, (size_t)num("cap", 256));
    if (m.empty()) {
      std::string tm[4];
      std::vector<std::thread> th;
      for (int t = 0; t < 4; t++)
        th.emplace_back([&, t] {
          std::vector<std::pair<uint64_t, bool>> mine = vals;
          for (auto& v : mine) v.first = v.first * 0x9E3779B97F4A7C15ull + (uint64_t)t;
          for (int rep = 0; rep < 200 && tm[t].empty(); rep++)
            tm[t] = check_container(t == 0 ? vals : mine, (int)num("shape", 0), (int)num("depth", 1), num("reuse", 0) != 0, (size_t)num("cap", 256));
        });
      for (auto& x : th) x.join();
      for (int t = 0; t < 4 && m.empty(); t++)
        if (!tm[t].empty()) m = "with four threads serialising their own documents: " + tm[t];
    }
    if (!m.empty()) c.fail(m);
    return;
  }
  const std::string* v = field(f, "v");
  if (!v) c.fail("replay has no v field");
  uint64_t x = strtoull(v->c_str(), nullptr, 10);
  std::string m;
  for (int pr = 0; pr <= 8 && m.empty(); pr++) {
    g_prior = pr;
    m = check_u64(x, true);
    if (m.empty()) m = check_i64((int64_t)x, true);
  }
  g_prior = 0;
  if (m.empty()) m = check_u64(x, true);
  if (m.empty()) m = check_i64((int64_t)x, true);
  if (!m.empty()) c.fail(m);
}

}  // namespace

VF_HARNESS_MAIN((HarnessDef{"c08_itoa", "C08", property, direct, nullptr, [](std::map<std::string, std::string>& e) {
                              e["kernel_blocks_enumerated"] = std::to_string(g_blocks);
                              e["kernel_blocks_total"] = std::to_string(kBlocks);
                            }}))
