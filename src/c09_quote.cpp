// C09 - string quoting is exact for all bytes and never strays outside its buffers.
// Oracle: scalar matcher written from the statement; guard pages on source and destination (production build:
// the direct over-read branch is live; sanitizer build: the copy branch + ASan); bytes beyond the string must not
// influence the output.
#include <cstring>
#include <memory>

#include "common/guard_page.hpp"
#include "common/harness.hpp"
#include "common/refjson.hpp"
#include "common/sonic_mv.hpp"

using namespace vf;
using namespace sonic_json;

namespace {

static GuardArena* g_src = nullptr;
static GuardArena* g_dst = nullptr;

// out must be: '"' + for each input byte either the byte verbatim (>= 0x20, not quote/backslash) or an escape that
// decodes to exactly that byte + '"'
static std::string match(const std::string& in, const char* out, size_t n) {
  char b[160];
  if (n > 6 * in.size() + 2) {
    snprintf(b, sizeof b, "emitted length %zu exceeds 6*len+2 = %zu", n, 6 * in.size() + 2);
    return b;
  }
  if (n < 2 || out[0] != '"' || out[n - 1] != '"') return "output is not enclosed in quotes";
  size_t o = 1, end = n - 1;
  for (size_t i = 0; i < in.size(); i++) {
    unsigned char ch = (unsigned char)in[i];
    if (o >= end) {
      snprintf(b, sizeof b, "output ends before input byte %zu", i);
      return b;
    }
    bool must = ch < 0x20 || ch == '"' || ch == '\\';
    if (!must) {
      if ((unsigned char)out[o] != ch) {
        snprintf(b, sizeof b, "input byte %zu (0x%02x) is not copied verbatim (output has 0x%02x at %zu)", i, ch, (unsigned char)out[o], o);
        return b;
      }
      o++;
      continue;
    }
    if (out[o] != '\\' || o + 1 >= end) {
      snprintf(b, sizeof b, "input byte %zu (0x%02x) is not escaped", i, ch);
      return b;
    }
    char e = out[o + 1];
    int dec = -1;
    size_t len = 2;
    switch (e) {
      case '"': dec = '"'; break;
      case '\\': dec = '\\'; break;
      case '/': dec = '/'; break;
      case 'b': dec = '\b'; break;
      case 'f': dec = '\f'; break;
      case 'n': dec = '\n'; break;
      case 'r': dec = '\r'; break;
      case 't': dec = '\t'; break;
      case 'u': {
        if (o + 6 > end) break;
        unsigned v = 0;
        bool ok = true;
        for (int k = 2; k < 6; k++) {
          char h = out[o + (size_t)k];
          int d = h >= '0' && h <= '9' ? h - '0' : h >= 'a' && h <= 'f' ? h - 'a' + 10 : h >= 'A' && h <= 'F' ? h - 'A' + 10 : -1;
          if (d < 0) ok = false;
          v = v * 16 + (unsigned)(d < 0 ? 0 : d);
        }
        if (ok) dec = (int)v;
        len = 6;
        break;
      }
    }
    if (dec != (int)ch) {
      snprintf(b, sizeof b, "escape for input byte %zu (0x%02x) decodes to %d", i, ch, dec);
      return b;
    }
    o += len;
  }
  if (o != end) {
    snprintf(b, sizeof b, "output has %zu extra byte(s) after the last input byte", end - o);
    return b;
  }
  return "";
}

// place: 0 = heap block of exact size (ASan redzones), 1 = ends on the last byte before a PROT_NONE page,
// 2 = inside the arena with `slack` bytes after it, 3 = starts on the first byte after a PROT_NONE page
static bool g_doc_mode = false;  // this case also runs the string through a partly filled write buffer
static uint64_t g_doc_k = 0;
typedef char* (*QuoteFn)(const char*, size_t, char*);
struct Kernel { const char* name; QuoteFn fn; };
static char* q_dispatch(const char* s, size_t n, char* d) { return internal::Quote(s, n, d); }
#ifdef SONIC_DYNAMIC_DISPATCH
// the runtime-dispatch build carries both kernels; the resolver picks one per host, so the other one would never run here:
// both are also called directly (what a host without / with AVX2 would execute)
__attribute__((target(SONIC_WESTMERE))) static char* q_sse(const char* s, size_t n, char* d) { return internal::sse::Quote(s, n, d); }
__attribute__((target(SONIC_HASWELL))) static char* q_avx2(const char* s, size_t n, char* d) { return internal::avx2::Quote(s, n, d); }
static const Kernel kKernels[] = {{"dispatch", q_dispatch}, {"sse-clone", q_sse}, {"avx2-clone", q_avx2}};
#else
static const Kernel kKernels[] = {{"static", q_dispatch}};
#endif
static std::string judge1(const Kernel& K, const std::string& in, int place, size_t slack, Case& c);
static std::string judge(const std::string& in, int place, size_t slack, Case& c) {
  for (auto& K : kKernels) {
    std::string m = judge1(K, in, place, slack, c);
    if (!m.empty()) return std::string("[") + K.name + "] " + m;
  }
  return "";
}
static std::string judge1(const Kernel& K, const std::string& in, int place, size_t slack, Case& c) {
  size_t len = in.size();
  size_t cap = 6 * len + 32 + 3;  // what serialize.h reserves before quoting
  if (cap > g_dst->capacity() || len + slack > g_src->capacity()) return "";
  char* dst = (char*)g_dst->at_end(cap);
  memset(dst, 0x7e, cap);
  std::unique_ptr<char[]> heap;
  const char* src;
  if (place == 0) {
    heap.reset(new char[len ? len : 1]);
    memcpy(heap.get(), in.data(), len);
    src = heap.get();
  } else if (place == 3) {
    src = (const char*)g_src->at_start(0);
    memcpy((void*)src, in.data(), len);
    memset((void*)(src + len), 'A', std::min<size_t>(slack, g_src->capacity() - len));
  } else {
    if (place == 1) slack = 0;
    char* p = (char*)g_src->at_end(len, slack);
    memcpy(p, in.data(), len);
    memset(p + len, 'A', slack);
    src = p;
  }
  char* e = K.fn(src, len, dst);
  size_t n = (size_t)(e - dst);
  if (e < dst || n > cap) return "Quote returned a pointer outside the destination buffer";
  std::string m = match(in, dst, n);
  if (!m.empty()) return m;
  std::string first(dst, n);
  // bytes beyond the string must not influence the output
  if ((place == 2 || place == 3) && slack > 0) {
    char* after = const_cast<char*>(src) + len;
    size_t room = place == 3 ? std::min<size_t>(slack, g_src->capacity() - len) : slack;
    for (size_t i = 0; i < room; i++) after[i] = (i % 3 == 0) ? '"' : (i % 3 == 1) ? '\\' : '\x01';
    memset(dst, 0x7e, cap);
    char* e2 = K.fn(src, len, dst);
    c.subevals++;
    if ((size_t)(e2 - dst) != n || memcmp(dst, first.data(), n) != 0) return "output depends on the bytes after the string";
  }
  // the same string as the last element of an array behind k small numbers, serialised into write buffers of several
  // capacities: the reservation for the string (6n+35) is made when the buffer is already partly filled
  if (g_doc_mode && K.fn == q_dispatch) {
    static const size_t caps[] = {0, 64, 96, 128, 256, 298, 300, 512, 1024};
    size_t k = (size_t)(g_doc_k % 41), cap = caps[g_doc_k / 41 % 9];
    Document d;
    auto& a = d.GetAllocator();
    d.SetArray();
    std::string want = "[";
    for (size_t i = 0; i < k; i++) {
      d.PushBack(Node((int64_t)(1000000000000000ll + (int64_t)i)), a);
      want += std::to_string(1000000000000000ll + (long long)i) + ",";
    }
    Node sn;
    sn.SetString(src, len);
    d.PushBack(std::move(sn), a);
    want += first + "]";
    WriteBuffer wb(cap);
    c.subevals++;
    if (d.Serialize(wb) != kErrorNone) return "Serialize of [numbers..., string] failed";
    if (wb.Size() != want.size() || memcmp(wb.ToString(), want.data(), want.size()) != 0)
      return "Serialize of [" + std::to_string(k) + " numbers, string] into a buffer of capacity " + std::to_string(cap) + " differs from the expected text";
  }
  // the same through Serialize of a string node
  {
    Document d;
    d.SetString(src, len);
    WriteBuffer wb;
    if (d.Serialize(wb) != kErrorNone) return "Serialize of a string node failed";
    if (wb.Size() != n || memcmp(wb.ToString(), first.data(), n) != 0) return "Serialize of the string differs from Quote";
    // ... and again into that buffer after its contents were moved away by a move-assignment
    WriteBuffer keep;
    keep = std::move(wb);
    if (d.Serialize(wb) != kErrorNone) return "Serialize of a string node into a moved-from write buffer failed";
    if (wb.Size() != n || memcmp(wb.ToString(), first.data(), n) != 0) return "Serialize of the string into a moved-from write buffer differs from Quote";
  }
  return "";
}

static void property(Src& s, Case& c) {
  size_t len;
  switch (s.weighted({10, 40, 30, 20})) {
    case 0: len = 0; break;
    case 1: len = (size_t)s.pick(1, 70); break;
    case 2: len = (size_t)s.pick(1, 200); break;
    default: {
      static const int l[] = {15, 16, 17, 31, 32, 33, 47, 48, 49, 63, 64, 65, 95, 96, 97, 127, 128, 129, 500, 1000};
      len = (size_t)l[s.index(20)];
    }
  }
  std::string in(len, 'a');
  std::string kind;
  switch (s.weighted({25, 25, 25, 10, 15})) {
    case 0: {  // one byte value at one offset in an otherwise plain string
      if (len) {
        size_t off = s.index(std::min<size_t>(len, 70));
        in[off] = (char)s.pick(0, 255);
      }
      kind = "single-byte";
      break;
    }
    case 1: {  // random mix, high escape density
      for (size_t i = 0; i < len; i++) {
        switch (s.weighted({5, 2, 2, 3, 2})) {
          case 0: in[i] = (char)('a' + s.index(26)); break;
          case 1: in[i] = '"'; break;
          case 2: in[i] = '\\'; break;
          case 3: in[i] = (char)s.pick(0, 0x1f); break;
          default: in[i] = (char)s.pick(0x7f, 0xff); break;
        }
      }
      kind = "dense-mix";
      break;
    }
    case 2: {  // sparse escapes
      for (size_t i = 0; i < len; i++) in[i] = s.coin(1, 16) ? (char)s.pick(0, 255) : (char)s.pick(0x20, 0x7e);
      kind = "sparse-mix";
      break;
    }
    case 3: {  // all escapes (worst case 6x)
      char ch = s.coin(1, 2) ? (char)s.pick(0, 0x1f) : (s.coin(1, 2) ? '"' : '\\');
      for (size_t i = 0; i < len; i++) in[i] = s.coin(1, 4) ? (char)s.pick(0, 0x1f) : ch;
      kind = "all-escapes";
      break;
    }
    default: {  // every byte value
      for (size_t i = 0; i < len; i++) in[i] = (char)s.pick(0, 255);
      kind = "random-bytes";
      break;
    }
  }
  int place = (int)s.weighted({2, 4, 3, 1});
  size_t slack = place == 2 ? (s.coin(1, 2) ? (size_t)s.pick(1, 70) : (size_t)s.pick(1, 4095)) : (size_t)s.pick(0, 64);
  c.note("in", in);
  c.note("place", std::to_string(place));
  c.note("slack", std::to_string(slack));
  static const char* pn[] = {"heap-exact", "page-end", "in-page", "page-start"};
  c.cls("class:" + kind);
  c.cls(std::string("place:") + pn[place]);
  c.cls("len%32=" + std::to_string(len % 32 / 8 * 8) + "..");
  bool has_esc = false;
  for (unsigned char ch : in) has_esc = has_esc || ch < 0x20 || ch == '"' || ch == '\\';
  c.nt((len >= 1 && has_esc) || (len % 32 != 0 && (place == 1 || (place == 2 && slack < 64))));
  if (c.counting) c.desc(std::string(pn[place]) + " slack=" + std::to_string(slack) + " len=" + std::to_string(len) + " " + printable(in, 60));
  g_doc_mode = s.coin(1, 4);
  g_doc_k = g_doc_mode ? s.pick(0, 41 * 9 - 1) : 0;
  c.note("dock", std::to_string(g_doc_mode ? (long long)g_doc_k : -1ll));
  if (g_doc_mode) c.cls("behind-numbers-in-a-partly-filled-write-buffer");
  std::string m = judge(in, place, slack, c);
  if (!m.empty()) c.fail(m + " | in=" + printable(in, 200) + " place=" + pn[place] + " slack=" + std::to_string(slack));
}

static void direct(const Fields& f, Case& c) {
  const std::string* in = field(f, "in");
  if (!in) c.fail("replay has no in field");
  int place = field(f, "place") ? atoi(field(f, "place")->c_str()) : -1;
  size_t slack = field(f, "slack") ? (size_t)atol(field(f, "slack")->c_str()) : 7;
  long dock = field(f, "dock") ? atol(field(f, "dock")->c_str()) : -1;
  for (int p = 0; p < 4; p++) {
    if (place >= 0 && place != p) continue;
    g_doc_mode = false;
    std::string m = judge(*in, p, slack, c);
    if (!m.empty()) c.fail(m + " | place=" + std::to_string(p));
    g_doc_mode = true;
    for (uint64_t k = 0; k < 41 * 9; k++) {
      if (dock >= 0 && (uint64_t)dock != k) continue;
      g_doc_k = k;
      m = judge(*in, p, slack, c);
      if (!m.empty()) c.fail(m + " | place=" + std::to_string(p) + " dock=" + std::to_string(k));
    }
    g_doc_mode = false;
  }
}

}  // namespace

VF_HARNESS_MAIN((HarnessDef{"c09_quote", "C09", property, direct,
                            [] {
                              g_src = new GuardArena(3);
                              g_dst = new GuardArena(4);
                            },
                            nullptr}))
