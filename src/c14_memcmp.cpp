// C14 - member lookup compares keys by exact bytes for every length and address.
// Oracle: memcmp. Kernel level: the length x first-mismatch grid (len 0..130) is enumerated completely by case
// index, operands placed independently at heap-exact / page-end / in-page offsets (guard pages). API level: objects
// whose keys are such ranges, FindMember by view and by pointer+length, with and without the lookup map.
#include <algorithm>
#include <cstring>
#include <memory>
#include <set>

#include "common/guard_page.hpp"
#include "common/harness.hpp"
#include "common/sonic_mv.hpp"

using namespace vf;
using namespace sonic_json;

namespace {

static GuardArena* g_a = nullptr;
static GuardArena* g_b = nullptr;
static std::set<uint32_t> g_cells;
static const int kMaxGridLen = 130;

static int sgn(int x) { return (x > 0) - (x < 0); }

struct Placed {
  std::unique_ptr<uint8_t[]> heap;
  const uint8_t* p = nullptr;
};

// place: 0 heap exact, 1 ends delta bytes before PROT_NONE, 2 at (page start + off)
static void put(GuardArena& ar, const std::string& bytes, int place, size_t param, Placed& out) {
  size_t n = bytes.size();
  if (place == 0) {
    out.heap.reset(new uint8_t[n ? n : 1]);
    memcpy(out.heap.get(), bytes.data(), n);
    out.p = out.heap.get();
  } else if (place == 1) {
    uint8_t* p = ar.at_end(n, param);
    memcpy(p, bytes.data(), n);
    memset(p + n, 0xC3, param);
    out.p = p;
  } else {
    uint8_t* p = ar.at_start(param);
    memcpy(p, bytes.data(), n);
    memset(p + n, 0xC3, 64);
    out.p = p;
  }
}

#ifdef SONIC_DYNAMIC_DISPATCH
// the dynamic-dispatch configuration does not export the inlined kernels (lookups go through StringView there);
// it is exercised at the API level only
static std::string judge_kernel(const std::string&, const std::string&, int, size_t, int, size_t) { return ""; }
#else
static std::string judge_kernel(const std::string& x, const std::string& y, int pa, size_t qa, int pb, size_t qb) {
  // equal-length ranges
  size_t n = x.size();
  Placed A, B;
  put(*g_a, x, pa, qa, A);
  put(*g_b, y, pb, qb, B);
  int want = n ? memcmp(x.data(), y.data(), n) : 0;
  bool eq = internal::InlinedMemcmpEq(A.p, B.p, n);
  int cmp = internal::InlinedMemcmp(A.p, B.p, n);
  char b[200];
  if (eq != (want == 0)) {
    snprintf(b, sizeof b, "InlinedMemcmpEq=%d but memcmp=%d (len %zu)", (int)eq, want, n);
    return b;
  }
  if (sgn(cmp) != sgn(want)) {
    snprintf(b, sizeof b, "InlinedMemcmp=%d but memcmp=%d (len %zu)", cmp, want, n);
    return b;
  }
  // symmetric call
  if (internal::InlinedMemcmpEq(B.p, A.p, n) != eq) return "InlinedMemcmpEq is not symmetric";
  if (sgn(internal::InlinedMemcmp(B.p, A.p, n)) != -sgn(want)) return "InlinedMemcmp(b,a) has the wrong sign";
  return "";
}
#endif

typedef GenericDocument<DNode<SimpleAllocator>> FreeDoc;

template <class DocT>
static std::string judge_api(const std::vector<std::string>& keys, const std::string& probe, bool with_map, int pp, size_t qp) {
  DocT doc;
  doc.SetObject();
  auto& alloc = doc.GetAllocator();
  for (size_t i = 0; i < keys.size(); i++) {
    typename DocT::NodeType v;
    v.SetUint64(i);
    doc.AddMember(StringView(keys[i].data(), keys[i].size()), std::move(v), alloc, true);
  }
  if (with_map) doc.CreateMap(alloc);
  Placed P;
  put(*g_b, probe, pp, qp, P);
  long want = -1;
  bool dup = false;
  for (size_t i = 0; i < keys.size(); i++)
    if (keys[i] == probe) {
      if (want < 0) want = (long)i;
      else dup = true;
    }
  auto it1 = doc.FindMember(StringView((const char*)P.p, probe.size()));
  auto it2 = doc.FindMember((const char*)P.p, probe.size());
  long got1 = it1 == doc.MemberEnd() ? -1 : (long)(it1 - doc.MemberBegin());
  long got2 = it2 == doc.MemberEnd() ? -1 : (long)(it2 - doc.MemberBegin());
  auto ok = [&](long got) {
    if (want < 0) return got < 0;
    if (got < 0) return false;
    if (with_map && dup) return keys[(size_t)got] == probe;  // any member carrying the key
    return got == want;
  };
  char b[200];
  if (!ok(got1)) {
    snprintf(b, sizeof b, "FindMember(view) returned member %ld, expected %ld (map=%d)", got1, want, (int)with_map);
    return b;
  }
  if (!ok(got2)) {
    snprintf(b, sizeof b, "FindMember(ptr,len) returned member %ld, expected %ld (map=%d)", got2, want, (int)with_map);
    return b;
  }
  if (doc.HasMember(StringView((const char*)P.p, probe.size())) != (want >= 0)) return "HasMember disagrees";
  return "";
}

// Probe ranges that ALIAS a stored member name: the probe starts at the very address of some member's name and has another
// length (a prefix of the stored bytes), and - with borrowed keys that are slices of one caller buffer - a longer one. Equality
// of keys is equality of (length, bytes), wherever the two ranges lie, also when they start at the same address.
template <class DocT>
static std::string judge_alias(const std::vector<std::string>& keys, bool with_map) {
  char b[240];
  auto expect = [&](const std::vector<std::string>& ks, const char* p, size_t n) {
    for (size_t i = 0; i < ks.size(); i++)
      if (ks[i].size() == n && memcmp(ks[i].data(), p, n) == 0) return (long)i;
    return -1L;
  };
  auto same_key = [&](const std::vector<std::string>& ks, long got, const char* p, size_t n) {
    return got >= 0 && ks[(size_t)got].size() == n && memcmp(ks[(size_t)got].data(), p, n) == 0;
  };
  {  // (a) copied keys: prefixes of each stored name, probed at the stored name's own address
    DocT doc;
    doc.SetObject();
    auto& alloc = doc.GetAllocator();
    for (size_t i = 0; i < keys.size(); i++) {
      typename DocT::NodeType v;
      v.SetUint64(i);
      doc.AddMember(StringView(keys[i].data(), keys[i].size()), std::move(v), alloc, true);
    }
    if (with_map) doc.CreateMap(alloc);
    for (auto it = doc.MemberBegin(); it != doc.MemberEnd(); ++it) {
      StringView nm = it->name.GetStringView();
      for (size_t n : {(size_t)0, nm.size() / 2, nm.size() ? nm.size() - 1 : 0, nm.size()}) {
        long want = expect(keys, nm.data(), n);
        auto f1 = doc.FindMember(StringView(nm.data(), n));
        auto f2 = doc.FindMember(nm.data(), n);
        long g1 = f1 == doc.MemberEnd() ? -1 : (long)(f1 - doc.MemberBegin()), g2 = f2 == doc.MemberEnd() ? -1 : (long)(f2 - doc.MemberBegin());
        bool ok1 = want < 0 ? g1 < 0 : (with_map ? same_key(keys, g1, nm.data(), n) : g1 == want);
        bool ok2 = want < 0 ? g2 < 0 : (with_map ? same_key(keys, g2, nm.data(), n) : g2 == want);
        if (!ok1 || !ok2) {
          snprintf(b, sizeof b, "probe aliasing the stored name of member %ld with length %zu of %zu: FindMember(view)=%ld FindMember(ptr,len)=%ld expected %ld (map=%d)",
                   (long)(it - doc.MemberBegin()), n, nm.size(), g1, g2, want, (int)with_map);
          return b;
        }
      }
    }
  }
  {  // (b) borrowed keys (copyKey=false) that are slices of ONE buffer starting at the same address
    static char shared[600];
    const std::string& base = keys[0];
    size_t L = std::min<size_t>(base.size(), 500);
    memcpy(shared, base.data(), L);
    for (size_t i = L; i < L + 8; i++) shared[i] = (char)('0' + i % 10);
    std::vector<size_t> lens;
    for (size_t n : {L, L / 2, L + 3, (size_t)1, L + 8})
      if (n <= L + 8 && std::find(lens.begin(), lens.end(), n) == lens.end()) lens.push_back(n);
    std::vector<std::string> ks;
    DocT doc;
    doc.SetObject();
    auto& alloc = doc.GetAllocator();
    for (size_t i = 0; i < lens.size(); i++) {
      typename DocT::NodeType v;
      v.SetUint64(i);
      doc.AddMember(StringView(shared, lens[i]), std::move(v), alloc, false);
      ks.emplace_back(shared, lens[i]);
    }
    if (with_map) doc.CreateMap(alloc);
    for (size_t n = 0; n <= L + 8; n++) {
      long want = expect(ks, shared, n);
      auto f1 = doc.FindMember(StringView(shared, n));
      auto f2 = doc.FindMember(shared, n);
      long g1 = f1 == doc.MemberEnd() ? -1 : (long)(f1 - doc.MemberBegin()), g2 = f2 == doc.MemberEnd() ? -1 : (long)(f2 - doc.MemberBegin());
      if (g1 != want || g2 != want) {
        snprintf(b, sizeof b, "borrowed keys sliced from one buffer, probe (same address, length %zu): FindMember(view)=%ld FindMember(ptr,len)=%ld expected %ld (map=%d)",
                 n, g1, g2, want, (int)with_map);
        return b;
      }
    }
  }
  return "";
}

static std::string variant(Src& s, const std::string& base) {
  std::string v = base;
  switch (s.weighted({3, 2, 2, 2, 1})) {
    case 0:
      if (!v.empty()) {
        size_t i = s.index(v.size());
        v[i] = (char)(v[i] ^ (1 << s.range(0, 7)));
      }
      break;
    case 1: v += (char)s.pick(0, 255); break;
    case 2: if (!v.empty()) v.pop_back(); break;
    case 3: if (!v.empty()) v[v.size() - 1] = (char)(v[v.size() - 1] + 1); break;
    default: if (!v.empty()) v[0] = (char)(v[0] - 1); break;
  }
  return v;
}

static void property(Src& s, Case& c) {
#ifdef SONIC_DYNAMIC_DISPATCH
  bool api = true;
  (void)s.coin(1, 4);
#else
  bool api = s.coin(1, 4);
#endif
  // grid cell by case index
  uint32_t cell = (uint32_t)(c.index % 8646);
  size_t len = 0;
  uint32_t k = cell;
  while (k > len) { k -= (uint32_t)len + 1; len++; }
  size_t mism = k;  // 0..len ; == len means "no mismatch"
  if (s.coin(1, 20)) {  // occasionally much longer ranges
    static const int big[] = {131, 160, 192, 255, 256, 257, 1000, 4000};
    len = (size_t)big[s.index(8)];
    mism = s.index(len + 1);
  }
  std::string x(len, '\0');
  for (auto& ch : x) ch = (char)s.pick(0, 255);
  if (s.coin(1, 4)) std::fill(x.begin(), x.end(), (char)s.pick(0, 255));
  std::string y = x;
  if (mism < len) {
    static const unsigned char pairs[][2] = {{0x00, 0x01}, {0x7f, 0x80}, {0xff, 0x00}, {0x80, 0x7f}, {0x01, 0x00}, {0xfe, 0xff}};
    if (s.coin(1, 2)) {
      size_t p = s.index(6);
      x[mism] = (char)pairs[p][0];
      y[mism] = (char)pairs[p][1];
    } else {
      y[mism] = (char)(x[mism] + 1 + (char)s.pick(0, 253));
    }
    // bytes after the first mismatch: sometimes equal, sometimes different in the opposite direction
    if (s.coin(1, 2))
      for (size_t i = mism + 1; i < len; i++)
        if (s.coin(1, 4)) y[i] = (char)(x[i] ^ 0x80);
  }
  int pa = (int)s.weighted({1, 3, 2}), pb = (int)s.weighted({1, 3, 2});
  size_t qa = pa == 1 ? (size_t)s.pick(0, 40) : (size_t)s.pick(0, 4095 - 64);
  size_t qb = pb == 1 ? (size_t)s.pick(0, 40) : (size_t)s.pick(0, 4095 - 64);
  if (len > 3000) { if (pa == 2) qa %= 64; if (pb == 2) qb %= 64; }
  c.note("x", x);
  c.note("y", y);
  c.note("pa", std::to_string(pa)); c.note("qa", std::to_string(qa));
  c.note("pb", std::to_string(pb)); c.note("qb", std::to_string(qb));
  c.note("api", api ? "1" : "0");
  static const char* pn[] = {"heap", "page-end", "in-page"};
  c.cls(std::string("placeA:") + pn[pa]);
  c.cls(mism < len ? "mismatch" : "equal");
  c.nt(len >= 1 && (mism < len || (pa == 1 && qa < 32) || (pb == 1 && qb < 32)));
  if (len <= (size_t)kMaxGridLen) g_cells.insert(cell);
  if (c.counting) c.desc("len=" + std::to_string(len) + " first-mismatch=" + (mism < len ? std::to_string(mism) : std::string("none")) + " A:" + pn[pa] + "/" + std::to_string(qa) + " B:" + pn[pb] + "/" + std::to_string(qb));
  std::string m;
  if (!api) {
    c.cls("level:kernel");
    m = judge_kernel(x, y, pa, qa, pb, qb);
  } else {
    c.cls("level:api");
    std::vector<std::string> keys;
    size_t nk = (size_t)s.pick(1, 6);
    for (size_t i = 0; i < nk; i++) keys.push_back(s.coin(1, 2) ? variant(s, x) : std::string(1, (char)('a' + (int)i)));
    keys.insert(keys.begin() + (long)s.index(keys.size() + 1), y);
    if (s.coin(1, 3)) keys.push_back(x);
    bool with_map = s.coin(1, 2);
    // without a map duplicate keys are fine (first match); with a map the statement speaks of distinct keys
    if (with_map) {
      std::set<std::string> seen;
      std::vector<std::string> u;
      for (auto& kx : keys)
        if (seen.insert(kx).second) u.push_back(kx);
      keys = u;
    }
    c.cls(with_map ? "api:map" : "api:linear");
    std::string keyblob;
    for (auto& kx : keys) keyblob += std::to_string(kx.size()) + ":" + kx;
    c.note("keys", keyblob);
    c.note("map", with_map ? "1" : "0");
    bool pooldoc = s.coin(1, 2);
    if (pooldoc) m = judge_api<Document>(keys, x, with_map, pb, qb);
    else m = judge_api<FreeDoc>(keys, x, with_map, pb, qb);
    if (m.empty() && s.coin(1, 3)) {
      c.cls("api:aliasing-probes");
      m = pooldoc ? judge_alias<Document>(keys, with_map) : judge_alias<FreeDoc>(keys, with_map);
    }
  }
  if (!m.empty()) c.fail(m + " | len=" + std::to_string(len) + " mism=" + std::to_string(mism) + " A:" + pn[pa] + "/" + std::to_string(qa) + " B:" + pn[pb] + "/" + std::to_string(qb) + " x=" + printable(x, 80));
}

static void direct(const Fields& f, Case& c) {
  const std::string *x = field(f, "x"), *y = field(f, "y");
  if (!x || !y) c.fail("replay needs x and y");
  if (x->size() != y->size()) return;
  auto num = [&](const char* k, long d) { return field(f, k) ? atol(field(f, k)->c_str()) : d; };
  bool api = num("api", 0) != 0;
  if (!api) {
    std::string m = judge_kernel(*x, *y, (int)num("pa", 1), (size_t)num("qa", 0), (int)num("pb", 1), (size_t)num("qb", 0));
    if (!m.empty()) c.fail(m);
    return;
  }
  std::vector<std::string> keys;
  if (const std::string* kb = field(f, "keys")) {
    size_t i = 0;
    while (i < kb->size()) {
      size_t colon = kb->find(':', i);
      if (colon == std::string::npos) break;
      size_t n = (size_t)atol(kb->substr(i, colon - i).c_str());
      keys.push_back(kb->substr(colon + 1, n));
      i = colon + 1 + n;
    }
  } else
    keys = {*y};
  std::string m = judge_api<Document>(keys, *x, num("map", 0) != 0, (int)num("pb", 1), (size_t)num("qb", 0));
  if (m.empty()) m = judge_api<FreeDoc>(keys, *x, num("map", 0) != 0, (int)num("pb", 1), (size_t)num("qb", 0));
  if (m.empty()) m = judge_alias<Document>(keys, num("map", 0) != 0);
  if (m.empty()) m = judge_alias<FreeDoc>(keys, num("map", 0) != 0);
  if (!m.empty()) c.fail(m);
}

}  // namespace

VF_HARNESS_MAIN((HarnessDef{"c14_memcmp", "C14", property, direct,
                            [] {
                              g_a = new GuardArena(3);
                              g_b = new GuardArena(3);
                            },
                            [](std::map<std::string, std::string>& e) {
                              e["grid_cells_covered"] = std::to_string(g_cells.size());
                              e["grid_cells_total"] = "8646";
                            }}))
