// C18 - document equality is JSON value equality (duplicate-free documents).
// Oracle: model equality (objects as key->value maps, numbers by kind and bits) on values whose relation is known by
// construction; algebraic laws (reflexive, symmetric, transitive, != is the negation).
#include <algorithm>
#include <cstring>
#include <deque>
#include <functional>

#include "common/genjson.hpp"
#include "common/harness.hpp"
#include "common/refjson.hpp"
#include "common/sonic_mv.hpp"

using namespace vf;
using namespace sonic_json;

namespace {

typedef GenericDocument<DNode<SimpleAllocator>> FreeDoc;

static const std::vector<std::string> kStatic = {"", "static-a", "static string with \"quotes\"", "0123456789abcdef0123456789abcdef0123456789abcdef"};

// a "history": how a document holding value v is produced
enum Hist { H_PARSE, H_PARSE_WS, H_BUILD, H_BUILD_PERMUTED, H_COPY, H_REPARSE_DUMP, H_DIRTY, H_RESERVED, H_MAPPED, H_CONST_STRINGS, H_MAP_FIRST, H_MAP_CHURN, H_COUNT };
static const char* kHistName[] = {"parse", "parse-ws", "build", "build-permuted", "copy", "reparse-dump", "prior-kind", "extra-capacity", "with-map", "const-strings", "map-first", "map-churn"};

static MV permuted(Src& s, const MV& v) {
  MV o = v;
  if (o.k == MV::Obj) {
    for (size_t i = o.o.size(); i > 1; i--) std::swap(o.o[i - 1], o.o[s.index(i)]);
    for (auto& kv : o.o) kv.second = permuted(s, kv.second);
  } else if (o.k == MV::Arr)
    for (auto& e : o.a) e = permuted(s, e);
  return o;
}

template <class N, class A>
static void add_capacity(Src& s, N& n, A& alloc) {
  if (n.IsArray()) {
    n.Reserve(n.Size() + (size_t)s.pick(1, 20), alloc);
    if (s.coin(1, 2)) { N t; t.SetUint64(7); n.PushBack(std::move(t), alloc); n.PopBack(); }
    for (auto it = n.Begin(); it != n.End(); ++it) add_capacity(s, *it, alloc);
  } else if (n.IsObject()) {
    n.MemberReserve(n.Size() + (size_t)s.pick(1, 20), alloc);
    if (s.coin(1, 2)) {
      N t;
      t.SetString("tmp", 3, alloc);
      n.AddMember("\x01tmp-key\x02", std::move(t), alloc);
      n.RemoveMember("\x01tmp-key\x02");
    }
    for (auto it = n.MemberBegin(); it != n.MemberEnd(); ++it) add_capacity(s, it->value, alloc);
  }
}
template <class N, class A>
static void add_maps(N& n, A& alloc) {
  if (n.IsObject()) {
    n.CreateMap(alloc);
    for (auto it = n.MemberBegin(); it != n.MemberEnd(); ++it) add_maps(it->value, alloc);
  } else if (n.IsArray())
    for (auto it = n.Begin(); it != n.End(); ++it) add_maps(*it, alloc);
}
// build with stale payloads: every node first holds another kind, then the wanted value
template <class N, class A>
static void build_dirty(Src& s, N& dst, const MV& m, A& a) {
  switch (s.index(4)) {
    case 0: dst.SetString("previous string value, long enough to be owned", 46, a); break;
    case 1: dst.SetDouble(-123.456); break;
    case 2: dst.SetInt64(-1); break;
    default: dst.SetArray(); { N t; t.SetBool(true); dst.PushBack(std::move(t), a); } break;
  }
  switch (m.k) {
    case MV::Arr:
      dst.SetArray();
      for (auto& e : m.a) { N c; build_dirty(s, c, e, a); dst.PushBack(std::move(c), a); }
      break;
    case MV::Obj:
      dst.SetObject();
      for (auto& kv : m.o) { N c; build_dirty(s, c, kv.second, a); dst.AddMember(StringView(kv.first.data(), kv.first.size()), std::move(c), a, true); }
      break;
    default:
      if (m.k == MV::Null && s.coin(1, 2)) {
        // a null that came about by moving the node's previous value away (the node keeps whatever payload bytes it had)
        switch (s.index(3)) {
          case 0: dst.SetString("a value that is moved away, long enough to be owned", 51, a); break;
          case 1: dst.SetInt64(-77); break;
          default: dst.SetDouble(3.25); break;
        }
        N gone(std::move(dst));
        (void)gone;
        if (!dst.IsNull()) dst.SetNull();
        break;
      }
      build(dst, m, a, true);
  }
}
// strings present in the static pool are set as constant (borrowed) strings
template <class N, class A>
static void build_const(N& dst, const MV& m, A& a) {
  if (m.k == MV::Str) {
    // any prefix of the big static buffer is borrowed as a slice of that ONE buffer (same start address, other length)
    const std::string& big = kStatic[3];
    if (m.s.size() <= big.size() && big.compare(0, m.s.size(), m.s) == 0 && !m.s.empty()) { dst.SetString(big.data(), m.s.size()); return; }
    for (auto& k : kStatic)
      if (k == m.s) { dst.SetString(k.data(), k.size()); return; }
    dst.SetString(m.s.data(), m.s.size(), a);
  } else if (m.k == MV::Arr) {
    dst.SetArray();
    for (auto& e : m.a) { N c; build_const(c, e, a); dst.PushBack(std::move(c), a); }
  } else if (m.k == MV::Obj) {
    dst.SetObject();
    for (auto& kv : m.o) {
      N c;
      build_const(c, kv.second, a);
      bool stat = false;
      for (auto& k : kStatic)
        if (k == kv.first) { dst.AddMember(StringView(k.data(), k.size()), std::move(c), a, false); stat = true; break; }
      if (!stat) dst.AddMember(StringView(kv.first.data(), kv.first.size()), std::move(c), a, true);
    }
  } else
    build(dst, m, a, true);
}

// every object gets its lookup map BEFORE its members are added, and every key reaches AddMember (copyKey) through one scratch
// buffer that is overwritten right afterwards: the object must have kept its own copy of the key, in the map too
template <class N, class A>
static void build_map_first(N& dst, const MV& m, A& a) {
  static char scratch[512];
  if (m.k == MV::Arr) {
    dst.SetArray();
    for (auto& e : m.a) { N c; build_map_first(c, e, a); dst.PushBack(std::move(c), a); }
  } else if (m.k == MV::Obj) {
    dst.SetObject();
    dst.CreateMap(a);
    for (auto& kv : m.o) {
      N c;
      build_map_first(c, kv.second, a);
      if (kv.first.size() <= sizeof scratch) {
        memcpy(scratch, kv.first.data(), kv.first.size());
        dst.AddMember(StringView(scratch, kv.first.size()), std::move(c), a, true);
        memset(scratch, 'Z', sizeof scratch);
      } else
        dst.AddMember(StringView(kv.first.data(), kv.first.size()), std::move(c), a, true);
    }
  } else
    build(dst, m, a, true);
}

// lookup map first, then every object goes through add / remove-the-last-member / add again on its way to the wanted value:
// the member that ends up last was preceded in its slot by a member called <key>_ (same value) that was removed again
template <class N, class A>
static void build_map_churn(N& dst, const MV& m, A& a) {
  if (m.k == MV::Arr) {
    dst.SetArray();
    for (auto& e : m.a) { N c; build_map_churn(c, e, a); dst.PushBack(std::move(c), a); }
  } else if (m.k == MV::Obj) {
    dst.SetObject();
    dst.CreateMap(a);
    for (size_t i = 0; i < m.o.size(); i++) {
      auto& kv = m.o[i];
      if (i + 1 == m.o.size()) {
        std::string ghost = kv.first + "_";
        if (!m.find(ghost)) {
          N g;
          build_map_churn(g, kv.second, a);
          dst.AddMember(StringView(ghost.data(), ghost.size()), std::move(g), a, true);
          dst.RemoveMember(StringView(ghost.data(), ghost.size()));
        }
      }
      N c;
      build_map_churn(c, kv.second, a);
      dst.AddMember(StringView(kv.first.data(), kv.first.size()), std::move(c), a, true);
    }
  } else
    build(dst, m, a, true);
}

template <class DocT>
static std::string make(Src& s, DocT& d, const MV& v, int h) {
  auto& a = d.GetAllocator();
  Layout lay;
  switch (h) {
    case H_PARSE: lay.ws = 0; d.Parse(render(s, v, lay)); break;
    case H_PARSE_WS: lay.ws = 2; lay.pad_max = 40; d.Parse(render(s, v, lay)); break;
    case H_BUILD: build(d, v, a, true); break;
    case H_BUILD_PERMUTED: build(d, permuted(s, v), a, true); break;
    case H_COPY: {
      if (s.coin(1, 2)) {
        // the source BORROWS every string and member name from caller memory (SetString(ptr,len), copyKey=false); the copy is
        // made with copyString=true, then the source dies and the caller's memory is overwritten
        std::deque<std::string> lent;
        {
          Document src;
          std::function<void(Node&, const MV&)> borrow = [&](Node& n, const MV& m) {
            if (m.k == MV::Str) { lent.push_back(m.s); n.SetString(lent.back().data(), lent.back().size()); }
            else if (m.k == MV::Arr) { n.SetArray(); for (auto& e : m.a) { Node c; borrow(c, e); n.PushBack(std::move(c), src.GetAllocator()); } }
            else if (m.k == MV::Obj) {
              n.SetObject();
              for (auto& kv : m.o) {
                Node c;
                borrow(c, kv.second);
                lent.push_back(kv.first);
                n.AddMember(StringView(lent.back().data(), lent.back().size()), std::move(c), src.GetAllocator(), false);
              }
            } else build(n, m, src.GetAllocator(), true);
          };
          borrow(src, v);
          d.CopyFrom(src, a, true);
        }
        for (auto& t : lent) std::fill(t.begin(), t.end(), '#');
        break;
      }
      Document src;
      build(src, v, src.GetAllocator(), true);
      d.CopyFrom(src, a, s.coin(1, 2));
      break;  // src dies here: the copy must be independent (copied strings) - const strings are static
    }
    case H_REPARSE_DUMP: {
      Document src;
      build(src, v, src.GetAllocator(), true);
      d.Parse(src.Dump());
      break;
    }
    case H_DIRTY: build_dirty(s, d, v, a); break;
    case H_RESERVED: build(d, v, a, true); add_capacity(s, static_cast<typename DocT::NodeType&>(d), a); break;
    case H_MAPPED: build(d, permuted(s, v), a, true); add_maps(static_cast<typename DocT::NodeType&>(d), a); break;
    case H_MAP_CHURN: build_map_churn(static_cast<typename DocT::NodeType&>(d), v, a); break;
    case H_MAP_FIRST: build_map_first(static_cast<typename DocT::NodeType&>(d), v, a); break;
    default: build_const(d, v, a); break;
  }
  if (d.HasParseError()) return "ORACLE-SELF-CHECK: generated text rejected";
  std::string err;
  MV got = walk(d, &err);
  if (!err.empty() || !eq_unordered(v, got)) return "ORACLE-SELF-CHECK: history " + std::string(kHistName[h]) + " did not produce the intended value: " + mv_diff(v, got) + err;
  return "";
}

// change exactly one thing; returns a description ("" if nothing could be changed)
static std::string tweak(Src& s, MV& v) {
  std::vector<MV*> nodes;
  std::function<void(MV&)> coll = [&](MV& x) {
    nodes.push_back(&x);
    for (auto& e : x.a) coll(e);
    for (auto& kv : x.o) coll(kv.second);
  };
  coll(v);
  MV* n = nodes[s.index(nodes.size())];
  switch (n->k) {
    case MV::Uint:
      if (s.coin(1, 3)) {  // same 64 payload bits, another number kind
        if (n->u > (uint64_t)INT64_MAX && s.coin(1, 2)) { n->k = MV::Sint; return "uint >= 2^63 vs the negative integer with the same two's-complement bits"; }
        if (((n->u >> 52) & 0x7ff) != 0x7ff) { n->k = MV::Real; return "uint vs the double with the same payload bits"; }
      }
      switch (s.index(4)) {
        case 0: *n = MV::real((double)n->u); return "uint -> double of the same value (1 vs 1.0)";
        case 1: if (n->u != 0 && n->u <= (1ull << 62)) { *n = MV::sint(-(int64_t)n->u); return "sign flipped"; } n->u++; return "uint +1";
        case 2: { char b[32]; snprintf(b, sizeof b, "%llu", (unsigned long long)n->u); *n = MV::str(b); return "number -> its digits as a string"; }
        default: n->u ^= 1ull << s.range(0, 63); return "one bit of a uint flipped";
      }
    case MV::Sint:
      if (s.coin(1, 3)) { n->k = MV::Uint; return "negative integer vs the unsigned integer with the same two's-complement bits"; }
      n->u ^= 1ull << s.range(0, 62); if ((int64_t)n->u >= 0) n->k = MV::Uint; return "one bit of an int flipped";
    case MV::Real:
      if (s.coin(1, 5)) { n->k = (n->u >> 63) ? MV::Sint : MV::Uint; return "double vs the integer with the same payload bits"; }
      if (s.coin(1, 3) && (n->u << 1) == 0) { n->u ^= 1ull << 63; return "0.0 vs -0.0"; }
      n->u ^= 1ull << s.range(0, 51);
      return "one mantissa bit of a double flipped";
    case MV::Str:
      switch (s.index(4)) {
        case 0: n->s += "x"; return "string extended";
        case 1: if (!n->s.empty()) { n->s.pop_back(); return "string shortened"; } n->s = "a"; return "empty string -> a";
        case 2: if (!n->s.empty()) { n->s[s.index(n->s.size())] ^= 1; return "one string byte changed"; } *n = MV::null(); return "empty string -> null";
        default: *n = MV::null(); return "string -> null";
      }
    case MV::Null: *n = MV::boolean(false); return "null -> false";
    case MV::False: *n = MV::boolean(true); return "false -> true";
    case MV::True: *n = s.coin(1, 2) ? MV::boolean(false) : MV::uint(1); return "true -> false/1";
    case MV::Arr:
      if (n->a.empty()) { *n = MV::obj(); return "[] -> {}"; }
      switch (s.index(4)) {
        case 0: n->a.pop_back(); return "array element removed";
        case 1: n->a.push_back(MV::null()); return "array element added";
        case 2:
          if (n->a.size() >= 2) {
            size_t i = s.index(n->a.size() - 1);
            if (!eq_unordered(n->a[i], n->a[i + 1])) { std::swap(n->a[i], n->a[i + 1]); return "two different array elements swapped"; }
          }
          n->a.insert(n->a.begin(), MV::uint(0));
          return "array element prepended";
        default: n->a.erase(n->a.begin()); return "first array element removed";
      }
    default:
      if (n->o.empty()) { *n = MV::arr(); return "{} -> []"; }
      switch (s.index(4)) {
        case 0: n->o.pop_back(); return "member dropped";
        case 1: {
          std::string k = n->o[s.index(n->o.size())].first;
          std::string nk = k + "_";
          if (s.coin(1, 2) && !k.empty()) { nk = k; nk[nk.size() - 1] ^= 1; }
          if (s.coin(1, 4) && !k.empty()) nk = k.substr(0, k.size() - 1);
          if (n->find(nk)) return "";
          for (auto& kv : n->o)
            if (kv.first == k) { kv.first = nk; break; }
          return "key renamed (same length / longer / prefix)";
        }
        case 2: {
          std::string nk = "extra-member";
          if (n->find(nk)) return "";
          n->o.emplace_back(nk, MV::null());
          return "member added";
        }
        default: {
          // replace one member by another key with the same value: sizes equal, key sets differ
          std::string nk = "zz-other";
          if (n->find(nk)) return "";
          n->o[s.index(n->o.size())].first = nk;
          return "member key replaced";
        }
      }
  }
}

// node-versus-scalar comparisons must follow the same value semantics (kind and bits for numbers, bytes for strings)
template <class N>
static std::string scalar_compare(const N& n, const MV& m, int& budget) {
  if (budget <= 0) return "";
  switch (m.k) {
    case MV::Uint:
      budget--;
      if (!(n == (uint64_t)m.u) || (n != (uint64_t)m.u)) return "uint node != the same uint64_t value";
      if ((n == (int64_t)m.u) != (m.u <= (uint64_t)INT64_MAX)) return "uint node vs int64_t of the same bits: wrong answer";
      if (n == (uint64_t)(m.u + 1)) return "uint node == another uint64_t value";
      if (m.u < (1ull << 52) && (n == (double)m.u)) return "uint node == a double of the same value (kinds must be distinguished)";
      break;
    case MV::Sint:
      budget--;
      if (!(n == (int64_t)m.u)) return "negative node != the same int64_t value";
      if (n == (uint64_t)m.u) return "negative node == the uint64_t with the same bits";
      break;
    case MV::Real: {
      budget--;
      double d = m.dbl();
      if (d == d && !(n == d)) return "double node != the same double";
      double other;
      uint64_t ob = m.u ^ 1;
      memcpy(&other, &ob, 8);
      if (other == other && (n == other)) return "double node == a double differing in the last bit";
      if (d == 0 && (n == -d)) return "0.0 node == -0.0 (or vice versa)";
      break;
    }
    case MV::True: case MV::False:
      budget--;
      if (!(n == (m.k == MV::True)) || (n == (m.k != MV::True))) return "bool node compares wrongly with a bool";
      break;
    case MV::Str:
      budget--;
      if (!(n == sonic_json::StringView(m.s.data(), m.s.size()))) return "string node != a view of the same bytes";
      if (n == sonic_json::StringView("\x01other\x02")) return "string node == another view";
      if (!m.s.empty() && (n == sonic_json::StringView(m.s.data(), m.s.size() - 1))) return "string node == a proper prefix of its value";
      break;
    case MV::Arr:
      for (size_t i = 0; i < m.a.size() && budget > 0; i++) {
        std::string r = scalar_compare(n[i], m.a[i], budget);
        if (!r.empty()) return r;
      }
      break;
    case MV::Obj:
      for (size_t i = 0; i < m.o.size() && budget > 0; i++) {
        std::string r = scalar_compare((n.MemberBegin() + (long)i)->value, m.o[i].second, budget);
        if (!r.empty()) return r;
      }
      break;
    default: break;
  }
  return "";
}

template <class A, class B>
static std::string relate(const A& a, const B& b, bool expect_equal, const char* what) {
  bool e1 = a == b, e2 = b == a, n1 = a != b, n2 = b != a;
  std::string w = what;
  if (e1 != expect_equal) return w + ": a == b is " + (e1 ? "true" : "false") + " but the values are " + (expect_equal ? "equal" : "different");
  if (e2 != e1) return w + ": == is not symmetric";
  if (n1 != !e1 || n2 != !e2) return w + ": != is not the negation of ==";
  return "";
}

static void property(Src& s, Case& c) {
  GenOpts go;
  go.dup_keys = false;
  static const int kNodes[] = {1, 4, 12, 40};
  go.max_nodes = std::min(kNodes[s.index(4)], 3 + c.size);
  go.max_depth = 6;
  go.prefer_container_root = s.coin(4, 5);
  static std::vector<std::string> pool = {"a", "b", "c", "key", "", "static-a", "k1", "k2", "x\"y"};
  go.key_pool = &pool;
  MV v = gen_value(s, go);
  // sprinkle static strings so that the const-string history has something to borrow
  {
    std::function<void(MV&)> f = [&](MV& x) {
      if (x.k == MV::Uint && s.coin(1, 4)) x.u |= 1ull << 63;  // unsigned values above INT64_MAX
      if (x.k == MV::Str && s.coin(1, 4)) {
        x.s = s.oneof(kStatic);
        if (s.coin(1, 2)) x.s = kStatic[3].substr(0, (size_t)s.pick(1, kStatic[3].size()));  // a slice of the shared buffer
      }
      for (auto& e : x.a) f(e);
      for (auto& kv : x.o) f(kv.second);
    };
    f(v);
  }
  int h1 = (int)s.index(H_COUNT), h2 = (int)s.index(H_COUNT), h3 = (int)s.index(H_COUNT);
  bool f1 = s.coin(1, 2), f2 = s.coin(1, 2);
  MV w = v;
  std::string change = s.coin(1, 2) ? tweak(s, w) : "";
  bool same = change.empty();
  if (!same && eq_unordered(v, w)) same = true;  // the tweak happened to be a no-op
  c.note("value", refjson::write(v));
  c.cls(std::string("hist:") + kHistName[h1]);
  c.cls(std::string("hist:") + kHistName[h2]);
  c.cls(same ? "equal-pair" : "unequal-pair");
  c.cls(f1 == f2 ? (f1 ? "alloc:freeing-freeing" : "alloc:pool-pool") : "alloc:cross-type");
  bool wide = false;
  {
    std::function<void(const MV&)> f = [&](const MV& x) {
      if (x.a.size() >= 2 || x.o.size() >= 2) wide = true;
      for (auto& e : x.a) f(e);
      for (auto& kv : x.o) f(kv.second);
    };
    f(v);
  }
  c.nt(wide);
  if (c.counting) c.desc(std::string(kHistName[h1]) + " vs " + kHistName[h2] + (same ? " equal " : (" unequal(" + change + ") ")) + printable(refjson::write(v), 100));
  std::string m;
  auto run = [&](auto& A, auto& B) {
    m = make(s, A, v, h1);
    if (m.empty()) m = make(s, B, w, h2);
    if (!m.empty()) return;
    m = relate(A, B, same, "pair");
    if (!m.empty()) return;
    if (!(A == A) || (A != A)) { m = "== is not reflexive"; return; }
    if (h1 != H_BUILD_PERMUTED && h1 != H_MAPPED) {  // (member order of A equals the order of v for these histories)
      int budget = 12;
      m = scalar_compare(static_cast<const typename std::remove_reference<decltype(A)>::type::NodeType&>(A), v, budget);
      if (!m.empty()) return;
    }
    // a deep copy and a parse of the serialised text are equal to the original
    Document cp;
    cp.CopyFrom(A, cp.GetAllocator(), true);
    m = relate(A, cp, true, "deep copy");
    if (!m.empty()) return;
    FreeDoc rp;
    rp.Parse(A.Dump());
    if (rp.HasParseError()) { m = "Dump() of a document does not parse"; return; }
    m = relate(A, rp, true, "parse of the serialised text");
    if (!m.empty()) return;
    // transitivity on an equal-by-construction triple
    if (same) {
      Document C;
      m = make(s, C, v, h3);
      if (!m.empty()) return;
      if (!(B == C) || !(A == C)) { m = std::string("transitivity: third document (history ") + kHistName[h3] + ") is not equal"; return; }
    }
    c.subevals += 4;
  };
  if (f1 && f2) { FreeDoc A, B; run(A, B); }
  else if (f1) { FreeDoc A; Document B; run(A, B); }
  else if (f2) { Document A; FreeDoc B; run(A, B); }
  else { Document A, B; run(A, B); }
  if (!m.empty()) c.fail(m + " | histories " + kHistName[h1] + "/" + kHistName[h2] + " change=" + change + " value=" + printable(refjson::write(v), 300) + " other=" + printable(refjson::write(w), 300));
}

}  // namespace

VF_HARNESS_MAIN((HarnessDef{"c18_equality", "C18", property, nullptr, nullptr, nullptr}))
