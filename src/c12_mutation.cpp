// C12 - the mutation API behaves like plain ordered containers (stateful, model-based).
// C13 - every allocation is released exactly once and copies are independent (compiled with -DVF_C13:
//       tracking allocator + document-level operations + ledger invariants after every step).
// The operation sequence is generated as one value (raw integers interpreted modulo the current state), applied to
// the library and to the model (array = vector, object = vector of pairs); after EVERY step the touched documents
// are read back through the accessor API and compared with the model, and lookups are cross-checked.
#include <cstring>
#include <functional>
#include <memory>

#include "common/genjson.hpp"
#include "common/harness.hpp"
#include "common/models.hpp"
#include "common/mutate.hpp"
#include "common/refjson.hpp"
#include "common/sonic_mv.hpp"
#include "common/track_alloc.hpp"

using namespace vf;
using namespace sonic_json;

extern "C" int __lsan_do_recoverable_leak_check(void) __attribute__((weak));

namespace {

typedef std::vector<size_t> IPath;  // child indices (member index for objects: addresses duplicates precisely)

// near-collision families: keys of one length that differ in a single byte at a position inside / between the vector blocks of
// the key comparison kernels (lengths 13..15: overlapping head/tail words; 33, 66, 70, 97: block loop + overlapping tail)
static std::string near_key(size_t len, size_t pos, char ch) {
  std::string k(len, 'q');
  for (size_t i = 0; i < len; i++) k[i] = (char)('a' + i % 23);
  k[pos] = ch;
  return k;
}
static const std::vector<std::string> kKeys = {"a", "b", "c", "d", "e", "key", "", "k1", "k2", "long-key-0123456789-0123456789-0123456789",
                                                "a\"b", "x\\y", "\n", "id", "name", "z",
                                                near_key(13, 4, '1'), near_key(13, 4, '2'), near_key(14, 5, '1'), near_key(14, 5, '2'),
                                                near_key(15, 6, '1'), near_key(15, 6, '2'), near_key(33, 32, '1'), near_key(33, 32, '2'),
                                                near_key(66, 33, '1'), near_key(66, 33, '2'), near_key(70, 36, '1'), near_key(70, 36, '2'),
                                                near_key(97, 64, '1'), near_key(97, 64, '2'), near_key(97, 70, '\xc3'),
                                                std::string("a\0b", 3), std::string("a\0c", 3), std::string("\0", 1),
                                                "user", "user_id", "user_id_hash", "user_id_hash_value"};
// borrowed (copyKey=false) keys of this family are handed to the library as slices of ONE buffer: same start address, four lengths
static const char kSliceBase[] = "user_id_hash_value";
static const std::vector<std::string> kConstStrings = {"", "const", "const string with \"quotes\" and \\ backslash",
                                                        "0123456789abcdef0123456789abcdef0123456789abcdef0123456789abcdef!"};

static bool is_prefix(const IPath& a, const IPath& b) {  // a is b or an ancestor of b
  if (a.size() > b.size()) return false;
  for (size_t i = 0; i < a.size(); i++)
    if (a[i] != b[i]) return false;
  return true;
}
static bool related(const IPath& a, const IPath& b) { return is_prefix(a, b) || is_prefix(b, a); }

static MV* model_at(MV& root, const IPath& p) {
  MV* m = &root;
  for (size_t i : p) m = m->k == MV::Arr ? &m->a[i] : &m->o[i].second;
  return m;
}
template <class N>
static N* node_at(N& root, const MV& model, const IPath& p) {
  N* n = &root;
  const MV* m = &model;
  for (size_t i : p) {
    if (m->k == MV::Arr) {
      n = &(*n)[i];
      m = &m->a[i];
    } else {
      n = &((n->MemberBegin() + (long)i)->value);
      m = &m->o[i].second;
    }
  }
  return n;
}
static void collect(const MV& m, IPath& cur, std::vector<IPath>& out, int want /* -1 any, MV::Arr, MV::Obj */, size_t limit) {
  if (out.size() >= limit) return;
  if (want < 0 || (int)m.k == want) out.push_back(cur);
  if (m.k == MV::Arr)
    for (size_t i = 0; i < m.a.size() && out.size() < limit; i++) {
      cur.push_back(i);
      collect(m.a[i], cur, out, want, limit);
      cur.pop_back();
    }
  else if (m.k == MV::Obj)
    for (size_t i = 0; i < m.o.size() && out.size() < limit; i++) {
      cur.push_back(i);
      collect(m.o[i].second, cur, out, want, limit);
      cur.pop_back();
    }
}
static std::string ipath_show(const IPath& p) {
  std::string s;
  for (size_t i : p) s += "/" + std::to_string(i);
  return s.empty() ? "(root)" : s;
}

static MV gen_small(Src& s, bool allow_container = true) {
  GenOpts go;
  go.max_nodes = allow_container && s.coin(1, 3) ? 6 : 1;
  go.max_depth = 2;
  go.long_strings = s.coin(1, 6);
  go.big_containers = false;
  static const std::vector<std::string> pool = kKeys;
  go.key_pool = &pool;
  go.dup_keys = false;
  return gen_value(s, go);
}

template <class DocT>
struct World {
  typedef typename DocT::NodeType N;
  struct Slot {
    std::unique_ptr<DocT> doc;
    MV model;
  };
#ifdef VF_C13_POOL
  // (declared before the documents: destroyed after them) pools that belong to the caller; every other document is built on one
  std::vector<std::unique_ptr<MemoryPoolAllocator<>>> ext;
#endif
  std::vector<Slot> docs;
  bool maps_enabled = true;
  std::vector<std::string> trace;
  std::map<std::string, int> events;  // named interleavings seen in this case

  explicit World(size_t n) {
    docs.resize(n);
#ifdef VF_C13_POOL
    for (size_t i = 0; i < n; i++) {
      ext.emplace_back(new MemoryPoolAllocator<>());
      if (i % 2 == 1) docs[i].doc.reset(new DocT(ext[i].get()));
      else docs[i].doc.reset(new DocT());
    }
#else
    for (auto& d : docs) d.doc.reset(new DocT());
#endif
  }

  void ev(const char* e) { events[e]++; }

  // ---- verification of one document against its model
  std::string verify(size_t di, Src& s) {
    Slot& sl = docs[di];
    std::string err;
    MV got = walk(*sl.doc, &err);
    if (!err.empty()) return "accessor inconsistency in doc " + std::to_string(di) + ": " + err;
    if (!eq_ordered(sl.model, got)) return "doc " + std::to_string(di) + " differs from the model (expected vs got) at " + mv_diff(sl.model, got);
    check_lookups(static_cast<const N&>(*sl.doc), sl.model, &err, true);
    if (!err.empty()) return "lookup inconsistency in doc " + std::to_string(di) + ": " + err;
    // probe every object with every key of the static pool: keys that were members earlier (before a Remove / Erase /
    // Clear / Set*) must be absent now, present ones must be found
    {
      std::function<std::string(const N&, const MV&)> probe = [&](const N& n, const MV& m) -> std::string {
        if (m.k == MV::Arr) {
          for (size_t i = 0; i < m.a.size(); i++) {
            std::string r = probe(n[i], m.a[i]);
            if (!r.empty()) return r;
          }
        } else if (m.k == MV::Obj) {
          for (auto& k : kKeys) {
            bool present = m.find(k) != nullptr;
            StringView sv(k.data(), k.size());
            bool f1 = n.FindMember(sv) != n.MemberEnd(), f2 = n.FindMember(k.data(), k.size()) != n.MemberEnd();
            bool f3 = n.HasMember(sv);
            if (f1 != present || f2 != present || f3 != present)
              return "lookup of pool key " + printable(k, 20) + " says " + (f1 ? "present" : "absent") + "/" + (f2 ? "present" : "absent") + "/" +
                     (f3 ? "present" : "absent") + " (view/ptr/HasMember) but the model says " + (present ? "present" : "absent");
            if (!present && !n[sv].IsNull()) return "operator[] of an absent key is not a null node";
          }
          for (size_t i = 0; i < m.o.size(); i++) {
            std::string r = probe((n.MemberBegin() + (long)i)->value, m.o[i].second);
            if (!r.empty()) return r;
          }
        }
        return "";
      };
      std::string r = probe(static_cast<const N&>(*sl.doc), sl.model);
      if (!r.empty()) return "doc " + std::to_string(di) + ": " + r;
    }
    // AtPointer (keys + indices, first-match for duplicate keys)
    refjson::Path p = gen_existing_path(s, sl.model, 8);
    const MV* want = refjson::resolve(sl.model, p);
    auto* n = sl.doc->AtPointer(to_pointer(p));
    if (!want || !n) return "AtPointer misses existing path " + refjson::path_show(p);
    if (!eq_ordered(*want, walk(*n, &err))) return "AtPointer returned another node at " + refjson::path_show(p);
    // serialisation still works and denotes the model (a failed ParseSchema may leave a non-finite double behind:
    // such a document is not serialisable by design)
    std::function<bool(const MV&)> nonfinite = [&](const MV& v) -> bool {
      if (v.k == MV::Real && ((v.u >> 52) & 0x7ff) == 0x7ff) return true;
      for (auto& e : v.a) if (nonfinite(e)) return true;
      for (auto& kv : v.o) if (nonfinite(kv.second)) return true;
      return false;
    };
    if (s.coin(1, 4) && !nonfinite(sl.model)) {
      std::string out = sl.doc->Dump();
      refjson::Result r = refjson::parse(out);
      if (!r.ok || !eq_ordered(sl.model, r.value)) return "Dump() of doc " + std::to_string(di) + " does not denote the model: " + printable(out, 200);
    }
    return "";
  }

  IPath pick_path(Src& s, size_t di, int want) {
    std::vector<IPath> c;
    IPath cur;
    collect(docs[di].model, cur, c, want, 48);
    if (c.empty()) return IPath{(size_t)-1};
    return c[s.index(c.size())];
  }
  bool none(const IPath& p) { return p.size() == 1 && p[0] == (size_t)-1; }

  // build a node holding `v` in document di's allocator; strings copied or constant
  // (strings are always copied: the model value they come from dies with the step)
  void make(N& out, const MV& v, size_t di, bool) { build(out, v, docs[di].doc->GetAllocator(), true); }

  // ---- one operation; returns a description
  std::string step(Src& s, std::vector<size_t>& touched) {
    size_t di = s.index(docs.size());
    touched.push_back(di);
    Slot& sl = docs[di];
    auto& alloc = sl.doc->GetAllocator();
    N& root = *sl.doc;
    size_t op = s.weighted({10 /*0 set scalar*/, 6 /*1 set container*/, 14 /*2 AddMember*/, 9 /*3 RemoveMember*/, 6 /*4 EraseMember*/,
                            3 /*5 MemberReserve*/, 6 /*6 CreateMap*/, 3 /*7 DestroyMap*/, 12 /*8 PushBack*/, 4 /*9 PopBack*/,
                            6 /*10 Erase*/, 3 /*11 Reserve*/, 3 /*12 Clear*/, 5 /*13 assign child*/, 6 /*14 CopyFrom*/,
                            5 /*15 move*/, 3 /*16 Swap*/});
    char b[200];
    switch (op) {
      case 0: {  // scalar / string set on any node
        IPath p = pick_path(s, di, -1);
        MV* m = model_at(sl.model, p);
        N* n = node_at(root, sl.model, p);
        size_t k = s.weighted({2, 2, 3, 3, 3, 4, 3});
        MV nv;
        switch (k) {
          case 0: n->SetNull(); nv = MV::null(); break;
          case 1: { bool bb = s.coin(1, 2); n->SetBool(bb); nv = MV::boolean(bb); break; }
          case 2: { int64_t x = (int64_t)s.u64() >> s.range(0, 63); n->SetInt64(x); nv = MV::sint(x); break; }
          case 3: { uint64_t x = s.u64() >> s.range(0, 63); n->SetUint64(x); nv = MV::uint(x); break; }
          case 4: { uint64_t bits = gen_double_bits(s); double d; memcpy(&d, &bits, 8); n->SetDouble(d); nv = MV::real_bits(bits); break; }
          case 5: { std::string str = gen_string(s, true, s.coin(1, 4)); n->SetString(str.data(), str.size(), alloc); nv = MV::str(str); break; }
          default: { const std::string& cs = s.oneof(kConstStrings); n->SetString(cs.data(), cs.size()); nv = MV::str(cs); break; }
        }
        *m = nv;
        return "Set scalar kind " + std::to_string(k) + " at " + ipath_show(p);
      }
      case 1: {
        IPath p = pick_path(s, di, -1);
        MV* m = model_at(sl.model, p);
        N* n = node_at(root, sl.model, p);
        if (s.coin(1, 2)) { n->SetArray(); *m = MV::arr(); }
        else { n->SetObject(); *m = MV::obj(); }
        return "SetArray/SetObject at " + ipath_show(p);
      }
      case 2: {  // AddMember
        IPath p = pick_path(s, di, MV::Obj);
        if (none(p)) { root.SetObject(); sl.model = MV::obj(); p.clear(); }
        MV* m = model_at(sl.model, p);
        N* n = node_at(root, sl.model, p);
        std::string key = s.coin(1, 10) ? gen_string(s, true, false) : s.oneof(kKeys);
        bool exists = m->find(key) != nullptr;
        if (exists && (m->has_map || s.coin(2, 3))) {  // duplicate keys only while no map may exist, and not too often
          int t = 0;
          while (m->find(key)) key += (char)('0' + (t++ % 10));
          exists = false;
        }
        bool copy_key = s.coin(2, 3);
        const std::string* kp = &key;
        if (!copy_key) {  // the key must outlive the document: use the static pool
          bool in_pool = false;
          for (auto& k : kKeys)
            if (k == key) { kp = &k; in_pool = true; }
          if (!in_pool) copy_key = true;
        }
        MV v = gen_small(s);
        N val;
        make(val, v, di, s.coin(3, 4));
        size_t old = m->o.size();
        if (old == 0) ev("growth-from-0");
        if (old >= 16 && n->Capacity() == old) ev("member-growth-across-capacity");
        if (exists) ev("duplicate-key-added");
        if (m->has_map) ev("add-with-map");
        StringView kview(kp->data(), kp->size());
        if (!copy_key && kp->size() <= sizeof kSliceBase - 1 && kp->size() >= 4 && memcmp(kp->data(), kSliceBase, kp->size()) == 0) {
          kview = StringView(kSliceBase, kp->size());
          ev("borrowed-key-slice-of-shared-buffer");
        }
        auto it = n->AddMember(kview, std::move(val), alloc, copy_key);
        m->o.emplace_back(key, v);
        if (it != n->MemberEnd() - 1) return "!AddMember did not return an iterator to the new last member";
        if (!val.IsNull()) return "!AddMember left the moved-from value non-null";
        if (s.coin(1, 10)) {  // burst of fresh keys: crosses the 16 -> 24 -> 36 capacity steps
          for (int r = 0; r < 22; r++) {
            std::string bk = "burst" + std::to_string(m->o.size()) + "_" + std::to_string(r);
            if (m->find(bk)) continue;
            N bv;
            bv.SetUint64((uint64_t)r);
            if (m->o.size() >= 16 && n->Capacity() == m->o.size()) ev("member-growth-across-capacity");
            n->AddMember(StringView(bk.data(), bk.size()), std::move(bv), alloc, true);
            m->o.emplace_back(bk, MV::uint((uint64_t)r));
          }
        }
        snprintf(b, sizeof b, "AddMember(%s, copyKey=%d) at %s", printable(key, 30).c_str(), (int)copy_key, ipath_show(p).c_str());
        return b;
      }
      case 3: {  // RemoveMember
        IPath p = pick_path(s, di, MV::Obj);
        if (none(p)) return "noop";
        MV* m = model_at(sl.model, p);
        N* n = node_at(root, sl.model, p);
        std::string key;
        size_t which = s.weighted({5, 2, 3, 2});
        if (m->o.empty() || which == 3) { key = "absent-key"; while (m->find(key)) key += "_"; }
        else if (which == 1) key = m->o.front().first;
        else if (which == 2) key = m->o.back().first;
        else key = m->o[s.index(m->o.size())].first;
        long idx = -1;
        for (size_t i = 0; i < m->o.size(); i++)
          if (m->o[i].first == key) { idx = (long)i; break; }
        if (idx >= 0 && m->has_map) {
          // with a map and duplicate-free keys the member is unique; (duplicates are never added while a map may exist,
          // but may predate it - then any member with that key may be removed: skip that shape)
          size_t cnt = 0;
          for (auto& kv : m->o) cnt += kv.first == key;
          if (cnt > 1) return "noop(dups+map)";
        }
        bool r = n->RemoveMember(StringView(key.data(), key.size()));
        if (r != (idx >= 0)) return "!RemoveMember returned the wrong result for key " + printable(key, 30);
        if (idx >= 0) {
          if (m->has_map) ev((size_t)idx + 1 == m->o.size() ? "remove-tail-with-map" : "remove-with-map");
          if ((size_t)idx + 1 == m->o.size()) ev("remove-tail");
          if (m->o.size() == 1) ev("remove-only-member");
          if ((size_t)idx + 1 != m->o.size()) m->o[(size_t)idx] = std::move(m->o.back());
          m->o.pop_back();
        } else
          ev("remove-absent");
        return "RemoveMember(" + printable(key, 30) + ") at " + ipath_show(p);
      }
      case 4: {  // EraseMember range
        IPath p = pick_path(s, di, MV::Obj);
        if (none(p)) return "noop";
        MV* m = model_at(sl.model, p);
        N* n = node_at(root, sl.model, p);
        size_t sz = m->o.size(), f, l;
        switch (s.weighted({2, 3, 2, 2, 2})) {
          case 0: f = l = s.index(sz + 1); break;                       // empty range
          case 1: f = sz ? s.index(sz) : 0; l = sz ? f + 1 : 0; break;  // single
          case 2: f = 0; l = s.index(sz + 1); break;                    // prefix
          case 3: f = s.index(sz + 1); l = sz; break;                   // suffix
          default: f = 0; l = sz; ev("erase-full-range"); break;        // full
        }
        if (sz == 0) { f = l = 0; }
        if (m->has_map) ev("erase-members-with-map");
        auto it = n->EraseMember(n->MemberBegin() + (long)f, n->MemberBegin() + (long)l);
        m->o.erase(m->o.begin() + (long)f, m->o.begin() + (long)l);
        m->has_map = false;
        if (it != n->MemberBegin() + (long)f && !(l - f >= sz && it == n->MemberEnd())) return "!EraseMember returned a wrong iterator";
        snprintf(b, sizeof b, "EraseMember[%zu,%zu) of %zu at %s", f, l, sz, ipath_show(p).c_str());
        return b;
      }
      case 5: {
        IPath p = pick_path(s, di, MV::Obj);
        if (none(p)) return "noop";
        MV* m = model_at(sl.model, p);
        N* n = node_at(root, sl.model, p);
        size_t cap = s.weighted({1, 2, 2}) == 0 ? 0 : (s.coin(1, 2) ? s.index(m->o.size() + 1) : m->o.size() + (size_t)s.pick(1, 40));
        n->MemberReserve(cap, alloc);
        if (n->Capacity() < cap) return "!MemberReserve did not provide the capacity";
        return "MemberReserve(" + std::to_string(cap) + ") at " + ipath_show(p);
      }
      case 6: {
        IPath p = pick_path(s, di, MV::Obj);
        if (none(p) || !maps_enabled) return "noop";
        MV* m = model_at(sl.model, p);
        N* n = node_at(root, sl.model, p);
        // the statement speaks about objects with distinct keys
        for (size_t i = 0; i < m->o.size(); i++)
          for (size_t j = 0; j < i; j++)
            if (m->o[i].first == m->o[j].first) return "noop(dups)";
        if (!n->CreateMap(alloc)) return "!CreateMap failed";
        m->has_map = true;
        ev("create-map");
        return "CreateMap at " + ipath_show(p);
      }
      case 7: {
        IPath p = pick_path(s, di, MV::Obj);
        if (none(p)) return "noop";
        MV* m = model_at(sl.model, p);
        N* n = node_at(root, sl.model, p);
        n->DestroyMap();
        if (m->has_map) ev("destroy-map");
        m->has_map = false;
        return "DestroyMap at " + ipath_show(p);
      }
      case 8: {  // PushBack
        IPath p = pick_path(s, di, MV::Arr);
        if (none(p)) { root.SetArray(); sl.model = MV::arr(); p.clear(); }
        MV* m = model_at(sl.model, p);
        N* n = node_at(root, sl.model, p);
        int reps = s.coin(1, 8) ? 20 : 1;  // bursts cross the 16 -> 24 -> 36 capacity steps
        for (int r = 0; r < reps; r++) {
          MV v = gen_small(s, reps == 1);
          N val;
          make(val, v, di, s.coin(3, 4));
          if (m->a.empty()) ev("growth-from-0");
          if (m->a.size() >= 16 && n->Capacity() == m->a.size()) ev("array-growth-across-capacity");
          n->PushBack(std::move(val), alloc);
          m->a.push_back(v);
          if (&n->Back() != &(*n)[m->a.size() - 1]) return "!Back() is not the pushed element";
        }
        return "PushBack x" + std::to_string(reps) + " at " + ipath_show(p);
      }
      case 9: {
        IPath p = pick_path(s, di, MV::Arr);
        if (none(p)) return "noop";
        MV* m = model_at(sl.model, p);
        N* n = node_at(root, sl.model, p);
        if (m->a.empty()) return "noop";
        n->PopBack();
        m->a.pop_back();
        return "PopBack at " + ipath_show(p);
      }
      case 10: {  // Erase
        IPath p = pick_path(s, di, MV::Arr);
        if (none(p)) return "noop";
        MV* m = model_at(sl.model, p);
        N* n = node_at(root, sl.model, p);
        size_t sz = m->a.size();
        if (sz == 0) return "noop";
        size_t f = s.index(sz), l = f + 1;
        size_t form = s.weighted({3, 3, 3});
        if (form != 0) {
          f = s.index(sz + 1);
          l = f + s.index(sz - f + 1);
          if (s.coin(1, 6)) { f = 0; l = sz; }
        }
        typename N::ValueIterator it;
        if (form == 0) it = n->Erase(n->Begin() + (long)f);
        else if (form == 1) it = n->Erase(n->Begin() + (long)f, n->Begin() + (long)l);
        else it = n->Erase(f, l);
        m->a.erase(m->a.begin() + (long)f, m->a.begin() + (long)l);
        if (it != n->Begin() + (long)f) return "!Erase returned a wrong iterator";
        snprintf(b, sizeof b, "Erase[%zu,%zu) of %zu (form %zu) at %s", f, l, sz, form, ipath_show(p).c_str());
        return b;
      }
      case 11: {
        IPath p = pick_path(s, di, MV::Arr);
        if (none(p)) return "noop";
        MV* m = model_at(sl.model, p);
        N* n = node_at(root, sl.model, p);
        size_t cap = s.coin(1, 3) ? s.index(m->a.size() + 1) : m->a.size() + (size_t)s.pick(0, 40);
        n->Reserve(cap, alloc);
        if (n->Capacity() < cap) return "!Reserve did not provide the capacity";
        return "Reserve(" + std::to_string(cap) + ") at " + ipath_show(p);
      }
      case 12: {
        IPath p = pick_path(s, di, s.coin(1, 2) ? MV::Arr : MV::Obj);
        if (none(p)) return "noop";
        MV* m = model_at(sl.model, p);
        N* n = node_at(root, sl.model, p);
        n->Clear();
        m->a.clear();
        m->o.clear();
        m->has_map = false;
        return "Clear at " + ipath_show(p);
      }
      case 13: {  // a[i] = move(x) / m->value = move(x)
        IPath p = pick_path(s, di, -1);
        if (p.empty()) return "noop";
        MV* m = model_at(sl.model, p);
        N* n = node_at(root, sl.model, p);
        MV v = gen_small(s);
        N val;
        make(val, v, di, s.coin(3, 4));
        *n = std::move(val);
        *m = v;
        return "child assignment at " + ipath_show(p);
      }
      case 14: {  // CopyFrom: source disjoint from the target (same or another document)
        size_t dj = s.index(docs.size());
        IPath pt = pick_path(s, di, -1);
        IPath ps = pick_path(s, dj, -1);
        if (di == dj && related(pt, ps)) return "noop(related)";
        touched.push_back(dj);
        bool copy_string = s.coin(1, 2);
        MV* mt = model_at(sl.model, pt);
        N* nt = node_at(root, sl.model, pt);
        const MV* ms = model_at(docs[dj].model, ps);
        N* ns = node_at(static_cast<N&>(*docs[dj].doc), docs[dj].model, ps);
        // a const-string node not copied keeps pointing at static storage: fine (kConstStrings are static)
        nt->CopyFrom(*ns, alloc, copy_string);
        if (copy_string) {
          // copyString=true: the copy owns every string and every member name (nothing keeps pointing at caller / static storage)
          std::function<bool(const N&)> borrowed = [&](const N& x) -> bool {
            if (x.IsString()) return x.IsStringConst();
            if (x.IsArray()) { for (auto it = x.Begin(); it != x.End(); ++it) if (borrowed(*it)) return true; }
            if (x.IsObject()) { for (auto it = x.MemberBegin(); it != x.MemberEnd(); ++it) if (it->name.IsStringConst() || borrowed(it->value)) return true; }
            return false;
          };
          if (borrowed(*nt)) return "!CopyFrom(copyString=true) left a borrowed (constant) string or member name in the copy";
        }
        MV copy = *ms;
        clear_maps(copy);
        *mt = copy;
        ev(di == dj ? "copy-same-doc" : "copy-other-doc");
        return "CopyFrom doc" + std::to_string(dj) + ipath_show(ps) + " -> doc" + std::to_string(di) + ipath_show(pt) + (copy_string ? " copyString" : "");
      }
      case 15: {  // move-assign within one document: from a disjoint node or from an own descendant
        IPath pt = pick_path(s, di, -1);
        IPath ps = pick_path(s, di, -1);
        if (pt == ps) return "noop(self)";
        if (is_prefix(ps, pt)) return "noop(source is an ancestor)";
        bool desc = is_prefix(pt, ps);
        MV* ms = model_at(sl.model, ps);
        N* ns = node_at(root, sl.model, ps);
        N* nt = node_at(root, sl.model, pt);
        MV moved = *ms;  // keeps has_map: the children block (and its map) travels with the node
        *nt = std::move(*ns);
        if (!desc) {
          // a parent object that holds a lookup map keyed by string views is unaffected (keys do not move)
          *model_at(sl.model, ps) = MV::null();
          *model_at(sl.model, pt) = moved;
          ev("move-from-disjoint");
        } else {
          *model_at(sl.model, pt) = moved;  // the rest of the old subtree is destroyed
          ev("move-from-own-descendant");
        }
        return "move doc" + std::to_string(di) + ipath_show(ps) + " -> " + ipath_show(pt);
      }
      default: {  // Swap two disjoint nodes of one document
        IPath pa = pick_path(s, di, -1), pb = pick_path(s, di, -1);
        if (related(pa, pb)) return "noop(related)";
        N* na = node_at(root, sl.model, pa);
        N* nb = node_at(root, sl.model, pb);
        na->Swap(*nb);
        std::swap(*model_at(sl.model, pa), *model_at(sl.model, pb));
        ev("swap");
        return "Swap " + ipath_show(pa) + " <-> " + ipath_show(pb);
      }
    }
  }

#ifdef VF_C13
  // document-level operations (C13)
  std::string doc_step(Src& s, std::vector<size_t>& touched) {
    size_t di = s.index(docs.size());
    touched.push_back(di);
    size_t op = s.weighted({3, 3, 2, 6, 3, 4, 2});
    switch (op) {
      case 0: {  // move-construct
        std::unique_ptr<DocT> nd(new DocT(std::move(*docs[di].doc)));
        docs[di].doc = std::move(nd);
        return "doc move-construct " + std::to_string(di);
      }
      case 1: {  // move-assign from another document; the moved-from document is only destroyed afterwards
        size_t dj = s.index(docs.size());
        if (dj == di) return "noop";
        touched.push_back(dj);
        *docs[di].doc = std::move(*docs[dj].doc);
        docs[di].model = docs[dj].model;
        docs[dj].doc.reset(new DocT());
        docs[dj].model = MV::null();
        return "doc move-assign " + std::to_string(dj) + " -> " + std::to_string(di);
      }
      case 2: {
        size_t dj = s.index(docs.size());
        if (dj == di) return "noop";
        touched.push_back(dj);
        docs[di].doc->Swap(*docs[dj].doc);
        std::swap(docs[di].model, docs[dj].model);
        return "doc Swap " + std::to_string(di) + " <-> " + std::to_string(dj);
      }
      case 3: {  // Parse valid or invalid text
        GenOpts go;
        go.max_nodes = 12;
        go.max_depth = 4;
        go.prefer_container_root = true;
        MV v = gen_value(s, go);
        Layout lay;
        lay.ws = (int)s.index(2);
        std::string text = render(s, v, lay);
        std::string what = "valid";
        if (s.coin(1, 2)) what = mutate_text(s, text);
        docs[di].doc->Parse(text);
        refjson::Result r = refjson::parse(text);
        bool ok = !docs[di].doc->HasParseError();
        if (r.ok && !r.bad_surrogate && !ok) return "!valid text rejected";
        if (ok) {
          if (!r.ok) return "!invalid text accepted";
          docs[di].model = r.value;
          ev("parse-valid");
        } else {
          docs[di].model = MV::null();
          ev(r.depth_at_fault > 0 ? "failed-parse-with-open-container" : "failed-parse");
        }
        return "Parse(" + what + ") into doc " + std::to_string(di) + ": " + printable(text, 80);
      }
      case 4: {  // ParseOnDemand
        GenOpts go;
        go.max_nodes = 10;
        go.max_depth = 3;
        go.prefer_container_root = true;
        go.dup_keys = false;
        MV v = gen_value(s, go);
        Layout lay;
        std::string text = render(s, v, lay);
        refjson::Path p = gen_existing_path(s, v, 4);
        if (s.coin(1, 3)) p.push_back(refjson::Step::K("absent-key"));
        docs[di].doc->ParseOnDemand(text, to_pointer(p));
        const MV* want = refjson::resolve(v, p);
        if (want) {
          if (docs[di].doc->HasParseError()) return "!ParseOnDemand failed for an existing path";
          docs[di].model = *want;
        } else {
          if (!docs[di].doc->HasParseError()) return "!ParseOnDemand succeeded for a missing path";
          docs[di].model = MV::null();
        }
        ev("parse-on-demand");
        return "ParseOnDemand into doc " + std::to_string(di);
      }
      case 5: {  // ParseSchema with a valid or invalid text; shapes of the array-into-object family are left to C19
        GenOpts go;
        go.max_nodes = 10;
        go.max_depth = 3;
        go.dup_keys = false;
        go.prefer_container_root = true;
        static const std::vector<std::string> pool = kKeys;
        go.key_pool = &pool;
        MV t = gen_value(s, go);
        Layout lay;
        std::string text = render(s, t, lay);
        bool valid = true;
        if (s.coin(1, 3)) {
          mutate_text(s, text);
          refjson::Result r = refjson::parse(text);
          valid = r.ok && !r.bad_surrogate;
          if (valid) t = r.value;
        }
        if (has_dup_keys(docs[di].model) || (valid && has_dup_keys(t))) return "noop(dups)";
        bool owned_replaced = false;
        {
          // does the update replace an owned value (string / container) of the existing document?
          const MV& E = docs[di].model;
          owned_replaced = E.k == MV::Str || E.is_container();
        }
        docs[di].doc->ParseSchema(text);
        bool ok = !docs[di].doc->HasParseError();
        if (valid && !ok) return "!ParseSchema rejected a valid text";
        // resynchronise the model from the document: the value semantics of ParseSchema belong to C19; here the
        // ledger (no leak, no double free) is the oracle
        std::string err;
        std::function<bool(const MV&)> any_map = [&](const MV& v) -> bool {
          if (v.has_map) return true;
          for (auto& e : v.a) if (any_map(e)) return true;
          for (auto& kv : v.o) if (any_map(kv.second)) return true;
          return false;
        };
        bool maybe_maps = any_map(docs[di].model);
        docs[di].model = walk(*docs[di].doc, &err);
        if (!err.empty()) return "!document inconsistent after ParseSchema: " + err;
        if (maybe_maps) {  // objects updated in place keep their lookup map: be conservative about where maps may be
          std::function<void(MV&)> mark = [&](MV& v) {
            if (v.k == MV::Obj) v.has_map = true;
            for (auto& e : v.a) mark(e);
            for (auto& kv : v.o) mark(kv.second);
          };
          mark(docs[di].model);
        }
        ev(ok ? (owned_replaced ? "parse-schema-replacing-owned" : "parse-schema") : "parse-schema-invalid");
        return std::string("ParseSchema(") + (valid ? "valid" : "invalid") + ") into doc " + std::to_string(di) + ": " + printable(text, 80);
      }
      default: {  // destroy the document now and start a fresh one
        docs[di].doc.reset(new DocT());
        docs[di].model = MV::null();
        ev("destroy-doc");
        return "destroy doc " + std::to_string(di);
      }
    }
  }
#endif
};

template <class DocT>
static void run_case(Src& s, Case& c, const char* alloc_name) {
  size_t nsteps = (size_t)s.pick(1, (uint64_t)(10 + c.size * 2));
  std::string fail;
  std::vector<std::string> trace;
  std::map<std::string, int> events;
  {
    World<DocT> w(3);
    w.maps_enabled = s.coin(3, 4);
    c.cls(std::string("alloc:") + alloc_name);
    c.cls(w.maps_enabled ? "maps:on" : "maps:off(transparency run)");
    for (size_t i = 0; i < nsteps && fail.empty(); i++) {
      std::vector<size_t> touched;
      std::string d;
#ifdef VF_C13
      if (s.coin(1, 5)) d = w.doc_step(s, touched);
      else
#endif
        d = w.step(s, touched);
      trace.push_back(d);
      if (!d.empty() && d[0] == '!') {
        fail = d.substr(1);
        break;
      }
      for (size_t di : touched) {
        std::string m = w.verify(di, s);
        if (!m.empty()) { fail = m; break; }
      }
#ifdef VF_C13
      if (fail.empty() && !ledger().errors.empty()) fail = "tracking allocator: " + ledger().errors[0];
#endif
    }
    events = w.events;
    // final full verification of every document
    for (size_t di = 0; di < w.docs.size() && fail.empty(); di++) fail = w.verify(di, s);
  }  // all documents destroyed here
#ifdef VF_C13
  if (fail.empty() && !ledger().errors.empty()) fail = "tracking allocator (at destruction): " + ledger().errors[0];
  if (fail.empty() && !ledger().live.empty())
    fail = "tracking allocator: " + std::to_string(ledger().live.size()) + " block(s), " + std::to_string(ledger().bytes_live) +
           " bytes still allocated after the last owner was destroyed";
#endif
  bool nt = false;
  for (auto& e : events) {
    c.cls("event:" + e.first);
    if (e.first.find("map") != std::string::npos || e.first.find("growth") != std::string::npos || e.first.find("move") != std::string::npos ||
        e.first.find("copy") != std::string::npos || e.first.find("failed-parse") != std::string::npos || e.first.find("schema") != std::string::npos)
      nt = true;
  }
  c.nt(nt);
  if (c.counting) {
    std::string d = std::to_string(trace.size()) + " ops: ";
    for (size_t i = 0; i < trace.size() && d.size() < 300; i++) d += trace[i] + "; ";
    c.desc(d);
  }
  if (!fail.empty()) {
    std::string d;
    size_t from = trace.size() > 12 ? trace.size() - 12 : 0;
    for (size_t i = from; i < trace.size(); i++) d += "[" + std::to_string(i) + "] " + trace[i] + "; ";
    c.fail(fail + " | after " + std::to_string(trace.size()) + " ops (" + alloc_name + "), last: " + d);
  }
}

static int g_n = 0;
static void property(Src& s, Case& c) {
#if defined(VF_C13_POOL)
  // the document operations of C13 on pool documents, every other one bound to a pool the caller owns (move / Swap exchange the
  // allocator bindings; ASan watches the chunks)
  run_case<Document>(s, c, "pool+caller-owned-pools");
  g_n++;
#elif defined(VF_C13)
  ledger().reset();
  run_case<GenericDocument<DNode<TrackingAllocator>>>(s, c, "tracking");
  g_n++;
#endif
#if defined(VF_C13)
  if (__lsan_do_recoverable_leak_check && (c.replay || (c.counting && g_n % 256 == 0)) && __lsan_do_recoverable_leak_check())
    c.fail("LeakSanitizer: memory leaked (parser stacks / std::realloc / pool chunks)");
#else
  if (s.coin(1, 2)) run_case<Document>(s, c, "pool");
  else run_case<GenericDocument<DNode<SimpleAllocator>>>(s, c, "freeing");
#endif
}

}  // namespace

#ifdef VF_C13
VF_HARNESS_MAIN((HarnessDef{"c13_ownership", "C13", property, nullptr, nullptr, nullptr}))
#else
VF_HARNESS_MAIN((HarnessDef{"c12_mutation", "C12", property, nullptr, nullptr, nullptr}))
#endif
