// C06 - Serialize output is valid JSON that parses back to an equal document.
// Oracle: independent recogniser/parser (refjson) on the output, generating model value, byte-stability of a second
// serialisation, Dump()/Size() coherence, ASan on the unchecked writes; non-finite doubles => infinity error.
#include <cmath>
#include <cstring>
#include <limits>
#include <memory>

#include "common/genjson.hpp"
#include "common/guard_page.hpp"
#include "common/harness.hpp"
#include "common/wb_edge.hpp"
#include "common/refjson.hpp"
#include "common/sonic_mv.hpp"

using namespace vf;
using namespace sonic_json;

namespace {

typedef GenericDocument<DNode<SimpleAllocator>> FreeDoc;

// write buffers that survive across cases would break determinism: all buffer "history" is built inside the case
struct WbPlan {
  int kind = 0;       // 0 fresh, 1 explicit capacity, 2 reused after another document, 3 moved-from and reassigned
  size_t cap = 0;
  std::string prior;  // text of the document serialised before (kind 2)
};

template <class DocT>
static std::string judge(DocT& doc, const MV& want, const WbPlan& plan, Case& c, bool subnode_too) {
  char b[200];
  std::unique_ptr<WriteBuffer> wb;
  switch (plan.kind) {
    case 1: wb.reset(new WriteBuffer(plan.cap)); break;
    case 2: {
      wb.reset(new WriteBuffer());
      Document other;
      other.Parse(plan.prior);
      if (!other.HasParseError() && other.Serialize(*wb) != kErrorNone) return "ORACLE-SELF-CHECK: prior document failed to serialise";
      break;
    }
    case 3: {
      WriteBuffer tmp(plan.cap);
      tmp.Push("garbage", 7);
      WriteBuffer moved(std::move(tmp));
      wb.reset(new WriteBuffer());
      *wb = std::move(moved);
      break;
    }
    case 4:
    case 5: {  // the buffer was used, then its contents were moved AWAY (4: by move-assignment, 5: by move-construction); now it is used again
      wb.reset(new WriteBuffer(plan.cap));
      Document other;
      other.Parse(plan.prior.empty() ? std::string("[1,2,3]") : plan.prior);
      if (!other.HasParseError() && other.Serialize(*wb) != kErrorNone) return "ORACLE-SELF-CHECK: prior document failed to serialise";
      if (plan.kind == 4) {
        WriteBuffer keep;
        keep = std::move(*wb);
      } else {
        WriteBuffer keep(std::move(*wb));
      }
      break;
    }
    default: wb.reset(new WriteBuffer()); break;
  }
  SonicError e = doc.Serialize(*wb);
  if (e != kErrorNone) {
    snprintf(b, sizeof b, "Serialize returned error %d for a document of finite numbers", (int)e);
    return b;
  }
  size_t n = wb->Size();
  const char* cs = wb->ToString();
  if (strlen(cs) != n) return "Size() != strlen(ToString())";
  if (cs[n] != '\0') return "ToString() is not NUL terminated at Size()";
  std::string out(cs, n);
  refjson::Result r = refjson::parse(out);
  if (!r.ok || r.bad_surrogate)
    return std::string("output is not valid JSON (") + refjson::fault_name(r.fault) + " at " + std::to_string(r.offset) + "): " + printable(out, 300);
  if (!eq_ordered(want, r.value)) return "output denotes another value: " + mv_diff(want, r.value) + " | out=" + printable(out, 300);
  if (doc.Dump() != out) return "Dump() differs from Serialize()";
  // parse back with the library: equal document (checked through the accessor walk) and byte-stable re-serialisation
  Document back;
  back.Parse(out);
  if (back.HasParseError()) return "library rejects its own output: " + printable(out, 300);
  std::string err;
  MV got = walk(back, &err);
  if (!err.empty() || !eq_ordered(want, got)) return "parse-back differs: " + mv_diff(want, got) + err;
  if (!has_dup_keys(want) && !(back == doc)) return "parse-back is not == the original";
  WriteBuffer wb2;
  if (back.Serialize(wb2) != kErrorNone || wb2.Size() != n || memcmp(wb2.ToString(), out.data(), n) != 0)
    return "re-serialising the parsed-back document gives different bytes";
  // serialising again into the same (now used) buffer gives the same bytes
  if (doc.Serialize(*wb) != kErrorNone || wb->Size() != n || memcmp(wb->ToString(), out.data(), n) != 0)
    return "serialising twice into the same buffer gives different bytes";
  c.subevals += 2;
  // any sub-node serialises to its own value
  if (subnode_too && want.is_container()) {
    size_t idx = 0;
    if (want.k == MV::Arr && !want.a.empty()) {
      idx = want.a.size() - 1;
      std::string s = doc[idx].Dump();
      refjson::Result sr = refjson::parse(s);
      if (!sr.ok || !eq_ordered(want.a[idx], sr.value)) return "sub-node Dump() wrong: " + printable(s, 200);
    } else if (want.k == MV::Obj && !want.o.empty()) {
      idx = want.o.size() - 1;
      std::string s = (doc.MemberBegin() + idx)->value.Dump();
      refjson::Result sr = refjson::parse(s);
      if (!sr.ok || !eq_ordered(want.o[idx].second, sr.value)) return "sub-node Dump() wrong: " + printable(s, 200);
    }
  }
  return "";
}

// plant a non-finite double at a random node of a built document
template <class NodeT, class A>
static bool plant(Src& s, NodeT& n, A& alloc, double v, int depth = 0) {
  if (n.IsArray() && n.Size() > 0 && (depth < 6) && s.coin(3, 4)) return plant(s, n[s.index(n.Size())], alloc, v, depth + 1);
  if (n.IsObject() && n.Size() > 0 && (depth < 6) && s.coin(3, 4)) return plant(s, (n.MemberBegin() + s.index(n.Size()))->value, alloc, v, depth + 1);
  n.SetDouble(v);
  return true;
}

// Borrowed strings placed back to back downwards from the last byte before a PROT_NONE page: the first string ends on
// the last mapped byte, short ones that follow still lie inside the last vector block of the page.
struct EdgeStrings {
  GuardArena* arena;
  size_t used = 0;
  const char* place(const std::string& t) {
    if (used + t.size() > arena->capacity()) return t.data();
    used += t.size();
    char* p = (char*)arena->hi() - used;
    memcpy(p, t.data(), t.size());
    return p;
  }
};
template <class NodeT, class Alloc>
static void build_edge(NodeT& dst, const MV& m, Alloc& a, EdgeStrings& es) {
  switch (m.k) {
    case MV::Str: dst.SetString(es.place(m.s), m.s.size()); break;
    case MV::Arr:
      dst.SetArray();
      for (auto& e : m.a) {
        NodeT c;
        build_edge(c, e, a, es);
        dst.PushBack(std::move(c), a);
      }
      break;
    case MV::Obj:
      dst.SetObject();
      for (auto& kv : m.o) {
        NodeT c;
        build_edge(c, kv.second, a, es);
        dst.AddMember(sonic_json::StringView(es.place(kv.first), kv.first.size()), std::move(c), a, false);
      }
      break;
    default: build(dst, m, a, true); break;
  }
}

static void property(Src& s, Case& c) {
  GenOpts go;
  static const int kNodes[] = {1, 4, 12, 40, 150};
  go.max_nodes = std::min(kNodes[s.index(5)], 4 + c.size * 2);
  go.max_depth = 8;
  go.prefer_container_root = s.coin(3, 4);
  MV v = gen_value(s, go);
  if (s.coin(1, 20)) {
    // the value sits under 9..70 more levels of one-child arrays / objects (the serializer keeps a frame per open container)
    int levels = s.coin(1, 2) ? s.range(14, 20) : s.range(9, 70);
    for (int i = 0; i < levels; i++) {
      if (s.coin(1, 2)) { MV w = MV::arr(); w.a.push_back(v); v = w; }
      else { MV w = MV::obj(); w.o.emplace_back(s.coin(1, 2) ? "k" : "", v); v = w; }
    }
    c.cls("depth>=17(one-child wrappers)");
  }
  bool by_parse = s.coin(1, 2);
  bool freeing = s.coin(1, 2);
  bool nonfinite = s.coin(1, 12);
  WbPlan plan;
  plan.kind = (int)s.weighted({3, 4, 3, 1, 1, 1});
  static const size_t caps[] = {0, 1, 2, 7, 8, 63, 64, 255, 256, 4096};
  plan.cap = caps[s.index(10)];
  if (plan.kind == 2 || plan.kind >= 4) {
    GenOpts g2;
    g2.max_nodes = s.coin(1, 2) ? 3 : 120;
    plan.prior = refjson::write(gen_value(s, g2));
  }
  Layout lay;
  lay.ws = (int)s.index(2);
  std::string text = by_parse ? render(s, v, lay) : std::string();
  bool copy_strings = s.coin(1, 2);
  // a third of the borrowed-string builds keep their strings at the end of a mapped page
  bool edge = !by_parse && !copy_strings && s.coin(2, 3);
  static GuardArena* arena = new GuardArena(8);
  EdgeStrings es{arena};
  if (edge) c.cls("strings:borrowed-at-page-end");
  c.note("value", refjson::write(v));
  c.cls(by_parse ? "built:parse" : "built:mutation-api");
  c.cls(freeing ? "alloc:freeing" : "alloc:pool");
  static const char* wk[] = {"fresh", "capacity", "reused", "moved", "moved-from(assign)", "moved-from(construct)"};
  c.cls(std::string("wb:") + wk[plan.kind] + (plan.kind == 1 || plan.kind == 3 ? ("/" + std::to_string(plan.cap)) : ""));
  bool has_esc = false, has_big = false;
  {
    std::string canon = refjson::write(v);
    has_esc = canon.find('\\') != std::string::npos;
    has_big = canon.find("e+") != std::string::npos || canon.size() > 200;
  }
  c.nt(mv_depth(v) >= 2 || has_esc || has_big || plan.kind != 0);
  if (c.counting) c.desc(std::string(by_parse ? "parse " : "build ") + wk[plan.kind] + " " + printable(refjson::write(v), 110));
  std::string m;
  auto run = [&](auto& doc) {
    auto& alloc = doc.GetAllocator();
    if (by_parse) {
      doc.Parse(text);
      if (doc.HasParseError()) { m = "ORACLE-SELF-CHECK: generated text rejected"; return; }
    } else {
      if (edge) build_edge(static_cast<typename std::remove_reference<decltype(doc)>::type::NodeType&>(doc), v, alloc, es);
      else build(doc, v, alloc, copy_strings);
    }
    if (nonfinite) {
      static const double bad[] = {std::numeric_limits<double>::infinity(), -std::numeric_limits<double>::infinity(),
                                   std::numeric_limits<double>::quiet_NaN(), -std::numeric_limits<double>::quiet_NaN()};
      double nv = bad[s.index(4)];
      if (s.coin(1, 3)) {  // NaN with payload
        uint64_t bits = 0x7ff0000000000000ull | (s.u64() & 0x000fffffffffffffull) | 1;
        memcpy(&nv, &bits, 8);
      }
      plant(s, static_cast<typename std::remove_reference<decltype(doc)>::type::NodeType&>(doc), alloc, nv);
      c.cls("non-finite");
      WriteBuffer wb;
      SonicError e = doc.Serialize(wb);
      if (e != kSerErrorInfinity) { m = "document with a non-finite double: Serialize returned " + std::to_string((int)e) + " instead of kSerErrorInfinity"; return; }
      if (doc.Dump() != "") { m = "document with a non-finite double: Dump() is not empty"; return; }
      return;
    }
    m = judge(doc, v, plan, c, true);
  };
  if (freeing) { FreeDoc d; run(d); }
  else { Document d; run(d); }
  if (m.empty() && !nonfinite && s.coin(1, 24)) {
    // one scalar (short string, number, literal) at the end of a document, with every amount of space 1..94 left in the buffer:
    // each kind of value reserves its own worst case before writing
    MV x = gen_scalar(s, go);
    if (x.k == MV::Str && x.s.size() > 8) x.s.resize(8);
    if (x.k != MV::Real || std::isfinite(x.dbl())) {
      Document alone;
      build(alone, x, alone.GetAllocator(), true);
      std::string want = alone.Dump();
      refjson::Result rr = refjson::parse(want);
      if (!rr.ok || !eq_ordered(rr.value, x)) m = "scalar alone: Dump() does not denote the value: " + printable(want, 80);
      else {
        c.cls("write-buffer-edge-sweep");
        m = wb_edge_sweep([&](Node& n) { build(n, x, alone.GetAllocator(), false); }, want, 1, 94, c.subevals);
        if (!m.empty()) m += " | scalar=" + printable(want, 80);
      }
    }
  }
  if (!m.empty()) c.fail(m + " | value=" + printable(refjson::write(v), 300));
}

static void direct(const Fields& f, Case& c) {
  // replay by value: canonical JSON of the model value
  const std::string* v = field(f, "value");
  if (!v) v = field(f, "text");
  if (!v) c.fail("replay has no value field");
  refjson::Result r = refjson::parse(*v);
  if (!r.ok || r.bad_surrogate) return;
  for (int k = 0; k < 2; k++) {
    static const size_t caps[] = {0, 1, 2, 7, 8, 63, 64, 255, 256};
    for (size_t cap : caps) {
      WbPlan plan;
      plan.kind = 1;
      plan.cap = cap;
      std::string m;
      if (k == 0) { Document d; build(d, r.value, d.GetAllocator(), true); m = judge(d, r.value, plan, c, true); }
      else { FreeDoc d; d.Parse(*v); if (d.HasParseError()) c.fail("valid text rejected"); m = judge(d, r.value, plan, c, true); }
      if (!m.empty()) c.fail(m);
    }
  }
}

}  // namespace

#ifdef VF_FUZZ
extern "C" int LLVMFuzzerTestOneInput(const uint8_t* data, size_t size) {
  static HarnessDef def{"fz_roundtrip", "C06", nullptr, direct, nullptr, nullptr};
  return fuzz_bytes(def, data, size, "text");
}
#else
VF_HARNESS_MAIN((HarnessDef{"c06_serialize", "C06", property, direct, nullptr, nullptr}))
#endif
