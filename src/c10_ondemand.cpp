// C10 - on-demand lookup returns exactly what full parsing plus pointer lookup returns (valid texts).
// C11 - on-demand scanning of arbitrary unpadded input stays inside the input (compiled with -DVF_C11).
// Oracle C10: refjson::resolve on the generating value (first match); slice re-parsed by refjson; the DOM must agree.
// Oracle C11: no fault (exact-size heap block under ASan / guard pages on both ends in the production build);
//             success => slice inside the input and offset <= len; error => empty slice.
#include <climits>
#include <cstring>
#include <memory>

#include "common/genjson.hpp"
#include "common/guard_page.hpp"
#include "common/harness.hpp"
#include "common/mutate.hpp"
#include "common/refjson.hpp"
#include "common/sonic_mv.hpp"

using namespace vf;
using namespace sonic_json;

namespace {

static GuardArena* g_arena = nullptr;

struct Placed {
  std::unique_ptr<char[]> heap;
  const char* p = nullptr;
};
static uint64_t g_pod_prior = 0;  // which earlier use the reused document of the ParseOnDemand check gets (set per case)
// place 0: heap block of exactly len bytes; 1: ends on the last byte before PROT_NONE; 2: starts right after PROT_NONE
static void put(const std::string& t, int place, Placed& o) {
  if (place == 0 || t.size() > g_arena->capacity()) {
    o.heap.reset(new char[t.size() ? t.size() : 1]);
    memcpy(o.heap.get(), t.data(), t.size());
    o.p = o.heap.get();
  } else if (place == 1) {
    char* p = (char*)g_arena->at_end(t.size(), 0);
    memcpy(p, t.data(), t.size());
    o.p = p;
  } else {
    char* p = (char*)g_arena->at_start(0);
    memcpy(p, t.data(), t.size());
    // hostile bytes after the input: what a scanner that strays past the end would love to find (by text length: quotes,
    // closers and commas, a valid-looking continuation, backslashes, digits)
    static const char* hostile[] = {"\"", ",]}", ",1]}]}],\"k\":2}", "\\", "0123456789", "]", "}", ","};
    const char* h = hostile[t.size() % 8];
    size_t room = std::min<size_t>(96, g_arena->capacity() - t.size()), hl = strlen(h);
    for (size_t i = 0; i < room; i++) p[t.size() + i] = h[i % hl];
    o.p = p;
  }
}

// ---------------------------------------------------------------------------------- path text form (for replays)
static std::string path_encode(const refjson::Path& p) {
  std::string o;
  for (auto& s : p) {
    if (s.is_key) o += "k" + std::to_string(s.key.size()) + ":" + s.key;
    else o += "i" + std::to_string(s.idx) + ";";
  }
  return o;
}
static refjson::Path path_decode(const std::string& t) {
  refjson::Path p;
  size_t i = 0;
  while (i < t.size()) {
    if (t[i] == 'k') {
      size_t c = t.find(':', i);
      if (c == std::string::npos) break;
      size_t n = (size_t)atol(t.substr(i + 1, c - i - 1).c_str());
      p.push_back(refjson::Step::K(t.substr(c + 1, n)));
      i = c + 1 + n;
    } else if (t[i] == 'i') {
      size_t c = t.find(';', i);
      if (c == std::string::npos) break;
      p.push_back(refjson::Step::I(atol(t.substr(i + 1, c - i - 1).c_str())));
      i = c + 1;
    } else
      break;
  }
  return p;
}

// ---------------------------------------------------------------------------------- C10 oracle
static std::string judge_valid(const std::string& text, const MV& root, const refjson::Path& path, int place, Case& c) {
  const MV* want = refjson::resolve(root, path);
  Placed P;
  put(text, place, P);
  JsonPointer jp = to_pointer(path);
  StringView target("sentinel");
  ParseResult r = GetOnDemand(StringView(P.p, text.size()), jp, target);
  char b[256];
  std::string ps = refjson::path_show(path);
  if (want) {
    if (r.Error() != kErrorNone) {
      snprintf(b, sizeof b, "path %s resolves in the document but GetOnDemand returned error %d at %zu", ps.c_str(), (int)r.Error(), r.Offset());
      return b;
    }
    if (target.data() < P.p || target.data() + target.size() > P.p + text.size()) return "returned slice lies outside the input";
    if (r.Offset() > text.size()) return "reported offset beyond the input";
    std::string slice(target.data(), target.size());
    refjson::Result sr = refjson::parse(slice);
    if (!sr.ok) return "returned slice is not a JSON value: " + printable(slice, 100) + " for path " + ps;
    if (!eq_ordered(*want, sr.value))
      return "slice for path " + ps + " denotes another value: " + mv_diff(*want, sr.value) + " slice=" + printable(slice, 100);
  } else {
    if (r.Error() == kErrorNone) {
      return "path " + ps + " does not resolve but GetOnDemand succeeded with slice " + printable(std::string(target.data(), target.size()), 100);
    }
    if (!target.empty()) return "error returned but the slice is not empty";
  }
  // the StringView flavour of the pointer type must behave identically
  {
    JsonPointerView jv;
    for (auto& st : path) {
      if (st.is_key) jv /= JsonPointerNodeView(StringView(st.key.data(), st.key.size()));
      else jv /= JsonPointerNodeView((int)st.idx);
    }
    StringView t2("sentinel");
    ParseResult r2 = GetOnDemand(StringView(P.p, text.size()), jv, t2);
    if (r2.Error() != r.Error() || r2.Offset() != r.Offset() || t2.size() != target.size() || (t2.size() && t2.data() != target.data()))
      return "GetOnDemand with a JsonPointerView differs from the std::string pointer for path " + ps;
  }
  // ParseOnDemand must agree - on a fresh document and on documents that were used before (a full Parse of the same text,
  // an earlier ParseOnDemand of the whole text, a failed parse): what an earlier call left in the document's buffers is not
  // part of the value
  for (int prior = 0; prior < 4; prior++) {
    if (prior != (int)(g_pod_prior % 4) && prior != 0) continue;
    Document d;
    if (prior == 1) d.Parse(P.p, text.size());
    else if (prior == 2) d.ParseOnDemand(P.p, text.size(), JsonPointer());
    else if (prior == 3) d.Parse("[" + std::string(P.p, text.size()));
    d.ParseOnDemand(P.p, text.size(), jp);
    c.subevals++;
    if (want) {
      if (d.HasParseError()) {
        snprintf(b, sizeof b, "ParseOnDemand fails (error %d) for resolving path %s", (int)d.GetParseError(), ps.c_str());
        return b;
      }
      std::string err;
      MV got = walk(d, &err);
      if (!err.empty() || !eq_ordered(*want, got)) return "ParseOnDemand value differs at " + ps + ": " + mv_diff(*want, got) + err;
    } else {
      if (!d.HasParseError()) return "ParseOnDemand succeeds for non-resolving path " + ps;
      if (!d.IsNull()) return "ParseOnDemand failed but the document is not null";
    }
  }
  // reference behaviour: full parse + AtPointer (a disagreement here is C03 territory but worth knowing)
  {
    Document d;
    d.Parse(P.p, text.size());
    if (d.HasParseError()) return "ORACLE-SELF-CHECK: full parse rejects the valid text";
    auto* n = d.AtPointer(jp);
    if ((n != nullptr) != (want != nullptr)) return "DOM AtPointer disagrees with the reference resolver at " + ps;
  }
  return "";
}

// wrong continuation of a prefix of an existing path
// raw spelling of a key as render_string(escapes=false) writes it, or "" if it needs a \\u escape (random hex case)
static std::string raw_spelling(const std::string& k) {
  std::string o;
  bool any = false;
  for (unsigned char c : k) {
    switch (c) {
      case '"': o += "\\\""; any = true; break;
      case '\\': o += "\\\\"; any = true; break;
      case '\b': o += "\\b"; any = true; break;
      case '\f': o += "\\f"; any = true; break;
      case '\n': o += "\\n"; any = true; break;
      case '\r': o += "\\r"; any = true; break;
      case '\t': o += "\\t"; any = true; break;
      default:
        if (c < 0x20) return "";
        o.push_back((char)c);
    }
  }
  return any ? o : "";
}

static refjson::Path gen_wrong_path(Src& s, const MV& root, std::string& kind, bool raw_ok = false) {
  refjson::Path p = gen_existing_path(s, root, 8);
  if (!p.empty() && s.coin(1, 2)) p.resize(s.index(p.size() + 1));
  const MV* cur = refjson::resolve(root, p);
  if (!cur) { kind = "existing"; return p; }
  switch (cur->k) {
    case MV::Arr: {
      size_t n = cur->a.size();
      switch (s.weighted({4, 3, 2, 2, 2, 2, 3, n == 0 ? 6u : 0u})) {
        case 0: p.push_back(refjson::Step::I((long)n)); kind = "index==size"; break;
        case 1: p.push_back(refjson::Step::I((long)n + 1)); kind = "index==size+1"; break;
        case 2: p.push_back(refjson::Step::I((long)n + 1000)); kind = "index==size+1000"; break;
        case 3: p.push_back(refjson::Step::I(INT_MAX)); kind = "index==INT_MAX"; break;
        case 4: p.push_back(refjson::Step::I(-1)); kind = "index==-1"; break;
        case 5: p.push_back(refjson::Step::I(INT_MIN)); kind = "index==INT_MIN"; break;
        case 6: p.push_back(refjson::Step::K(s.coin(1, 2) ? "a" : "0")); kind = "key-into-array"; break;
        default: p.push_back(refjson::Step::I((long)s.pick(0, 3))); kind = "index-into-empty-array"; break;
      }
      if (n == 0 && kind != "index-into-empty-array" && kind != "key-into-array") kind += "(empty-array)";
      break;
    }
    case MV::Obj: {
      size_t n = cur->o.size();
      if (raw_ok && n && s.coin(1, 2)) {
        // the pointer key is byte-for-byte the RAW (still escaped) spelling of a member name: must not match it
        std::vector<std::string> raws;
        for (auto& kv : cur->o) {
          std::string r = raw_spelling(kv.first);
          if (!r.empty() && !cur->find(r)) raws.push_back(r);
        }
        if (!raws.empty()) {
          p.push_back(refjson::Step::K(s.oneof(raws)));
          kind = "raw-spelling-of-escaped-key";
          break;
        }
      }
      switch (s.weighted({4, n ? 3u : 0u, 3, 2, n == 0 ? 5u : 0u})) {
        case 0: {
          std::string k = "absent";
          while (cur->find(k)) k += "_";
          p.push_back(refjson::Step::K(k));
          kind = "absent-key";
          break;
        }
        case 1: {  // proper prefix / extension of an existing key
          std::string k = cur->o[s.index(n)].first;
          if (!k.empty() && s.coin(1, 2)) k.pop_back();
          else k += "x";
          if (cur->find(k)) { kind = "existing"; p.push_back(refjson::Step::K(k)); break; }
          p.push_back(refjson::Step::K(k));
          kind = "key-prefix-or-extension";
          break;
        }
        case 2: {  // a key that exists elsewhere in the document (sibling / nested object)
          std::vector<refjson::Path> all;
          all_paths(root, all, 120);
          std::vector<std::string> keys;
          for (auto& q : all)
            if (!q.empty() && q.back().is_key && !cur->find(q.back().key)) keys.push_back(q.back().key);
          if (keys.empty()) { p.push_back(refjson::Step::K("nokey")); if (cur->find("nokey")) { kind = "existing"; break; } }
          else p.push_back(refjson::Step::K(s.oneof(keys)));
          kind = "key-of-another-object";
          break;
        }
        case 3: p.push_back(refjson::Step::I((long)s.pick(0, 2))); kind = "index-into-object"; break;
        default: p.push_back(refjson::Step::K(s.coin(1, 2) ? "" : "a")); kind = "key-into-empty-object"; break;
      }
      break;
    }
    default:
      if (s.coin(1, 2)) p.push_back(refjson::Step::I((long)s.pick(0, 2))), kind = "index-below-scalar";
      else p.push_back(refjson::Step::K(s.coin(1, 2) ? "a" : "")), kind = "key-below-scalar";
      if (s.coin(1, 3)) p.push_back(refjson::Step::I(0));
      break;
  }
  return p;
}

static void property_c10(Src& s, Case& c) {
  GenOpts go;
  static const int kNodes[] = {4, 10, 25, 60};
  go.max_nodes = std::min(kNodes[s.index(4)], 6 + c.size);
  go.max_depth = 7;
  go.prefer_container_root = true;
  static const std::vector<std::string> pool = {"a", "b", "key", "", "a\"b", "k\\", "[x]", "{y}", "a,b", "k:v", "\t", "é", "id", "0", "1"};
  go.key_pool = &pool;
  Layout lay;
  lay.ws = (int)s.weighted({3, 4, 3});
  lay.pad_max = s.coin(1, 2) ? 130 : 0;
  const bool raw_ok = s.coin(1, 4);  // keys spelled with the minimal (deterministic) escapes: raw spellings are predictable
  if (raw_ok) lay.escapes = false;
  MV v = gen_value(s, go);
  if (s.coin(1, 30)) {
    // a sibling that holds hundreds of small containers of its own kind sits before (and after) the rest of the document: the
    // scanner has to skip it as ONE value
    MV many = gen_many_containers(s);
    if (s.coin(1, 2)) {
      MV w = MV::arr();
      w.a.push_back(many);
      w.a.push_back(v);
      w.a.push_back(MV::uint(7));
      v = w;
    } else {
      MV w = MV::obj();
      w.o.emplace_back("many", many);
      w.o.emplace_back("rest", v);
      w.o.emplace_back("last", MV::uint(7));
      v = w;
    }
    c.cls("sibling-with-hundreds-of-containers");
  }
  std::string text = render(s, v, lay);
  int place = (int)s.weighted({2, 2, 1});
  g_pod_prior = s.pick(0, 3);
  c.note("podprior", std::to_string(g_pod_prior));
  c.cls("parse-on-demand-document:" + std::string(g_pod_prior == 0 ? "fresh" : g_pod_prior == 1 ? "parsed-before" : g_pod_prior == 2 ? "on-demand-before" : "failed-before"));
  c.note("text", text);
  c.note("place", std::to_string(place));
  if (c.counting) c.desc(printable(text, 110));
  // a handful of paths per text: existing ones and wrong continuations
  int npaths = 4;
  bool nontrivial = false;
  for (int k = 0; k < npaths; k++) {
    refjson::Path p;
    std::string kind = "existing";
    if (s.coin(1, 2)) p = gen_existing_path(s, v, 10);
    else p = gen_wrong_path(s, v, kind, raw_ok);
    const MV* want = refjson::resolve(v, p);
    if (want && kind != "existing") kind = "existing";
    c.cls(std::string(want ? "hit:" : "miss:") + kind);
    bool esc = false;
    for (auto& st : p)
      if (st.is_key && st.key.find_first_of("\"\\\t") != std::string::npos) esc = true;
    if (esc) c.cls("path-with-escaped-key");
    nontrivial = nontrivial || !p.empty();
    c.note("path", path_encode(p));
    std::string m = judge_valid(text, v, p, place, c);
    c.subevals++;
    if (!m.empty()) c.fail(m + " | text=" + printable(text, 300));
  }
  c.nt(nontrivial);
}

// ---------------------------------------------------------------------------------- C11 oracle
static std::string judge_raw(const std::string& text, const refjson::Path& path, int place, Case& c) {
  Placed P;
  put(text, place, P);
  JsonPointer jp = to_pointer(path);
  StringView target("sentinel");
  ParseResult r = GetOnDemand(StringView(P.p, text.size()), jp, target);
  char b[200];
  if (r.Error() == kErrorNone) {
    if (target.data() < P.p || target.data() + target.size() > P.p + text.size() || target.size() > text.size()) {
      snprintf(b, sizeof b, "success with a slice outside the input: start offset %ld, size %zu, input length %zu",
               (long)(target.data() - P.p), target.size(), text.size());
      return b;
    }
    if (r.Offset() > text.size()) {
      snprintf(b, sizeof b, "success with offset %zu beyond the input length %zu", r.Offset(), text.size());
      return b;
    }
  } else {
    if (!target.empty()) return "error returned but the slice is not empty";
    if ((int)r.Error() < 0 || (int)r.Error() >= (int)kErrorNums) return "error code out of range";
  }
  // ParseOnDemand on the same input must also return without fault and coherently
  {
    Document d;
    d.ParseOnDemand(P.p, text.size(), jp);
    c.subevals++;
    if (d.HasParseError() && !d.IsNull()) return "ParseOnDemand failed but the document is not null";
    if (!d.HasParseError() && r.Error() != kErrorNone) return "ParseOnDemand succeeded although GetOnDemand failed";
  }
  return "";
}

static refjson::Path gen_any_path(Src& s, const MV* root) {
  refjson::Path p;
  if (root && s.coin(2, 3)) {
    std::string kind;
    p = s.coin(1, 2) ? gen_existing_path(s, *root, 10) : gen_wrong_path(s, *root, kind);
    if (s.coin(1, 4)) p.push_back(s.coin(1, 2) ? refjson::Step::I((long)s.pick(0, 3)) : refjson::Step::K("a"));
    return p;
  }
  size_t n = (size_t)s.pick(0, 5);
  static const std::vector<std::string> keys = {"a", "b", "", "key", "a\"b", "k\\", "\\u0061", "id"};
  for (size_t i = 0; i < n; i++) {
    if (s.coin(1, 2)) p.push_back(refjson::Step::K(s.oneof(keys)));
    else p.push_back(refjson::Step::I(s.coin(1, 8) ? -1 : (long)s.pick(0, 4)));
  }
  return p;
}

static void property_c11(Src& s, Case& c) {
  GenOpts go;
  go.max_nodes = 3 + c.size / 4;
  go.max_depth = 5;
  go.prefer_container_root = true;
  static const std::vector<std::string> pool = {"a", "b", "key", "", "a\"b", "k\\", "id"};
  go.key_pool = &pool;
  Layout lay;
  lay.ws = (int)s.weighted({4, 4, 2});
  MV v = gen_value(s, go);
  std::string text = render(s, v, lay), what = "valid";
  switch (s.weighted({10, 35, 35, 10, 10})) {
    case 0: break;
    case 1: {
      size_t n = s.index(text.size() + 1);
      text.resize(n);
      what = "truncated";
      break;
    }
    case 2: what = mutate_text(s, text); break;
    case 3: {  // lengths around the block sizes
      static const int lens[] = {0, 1, 2, 15, 16, 17, 31, 32, 33, 63, 64, 65, 66, 67, 127, 128, 129, 130};
      size_t n = (size_t)lens[s.index(18)];
      while (text.size() < n) text += s.coin(1, 2) ? " " : text.substr(0, n - text.size());
      text.resize(n);
      what = "block-length";
      break;
    }
    default: text = nesting_text(s, 30); what = "nesting"; break;
  }
  bool long_tail = false;
  if (s.coin(1, 10)) {
    // the text ends inside (or right behind) a long scalar that a path can select: 17..200 characters of number / literal / string
    size_t n = s.coin(1, 2) ? (size_t)s.pick(17, 70) : (size_t)s.pick(17, 200);
    std::string scalar;
    switch (s.index(3)) {
      case 0: scalar = "-"; for (size_t i = 0; i < n; i++) scalar += (char)('0' + (i * 7 + n) % 10); break;
      case 1: scalar = "1."; for (size_t i = 0; i < n; i++) scalar += (char)('0' + (i * 3 + n) % 10); scalar += "e-5"; break;
      default: scalar = "\"" + std::string(n, 's'); break;  // unterminated string
    }
    switch (s.index(3)) {
      case 0: text = scalar; v = MV::null(); break;
      case 1: text = "[" + scalar; break;
      default: text = "{\"a\":" + scalar; break;
    }
    what = "ends-in-long-scalar";
    long_tail = true;
  }
  refjson::Path p = gen_any_path(s, &v);
  if (long_tail) {  // the path that selects the scalar
    p.clear();
    if (text[0] == '[') { refjson::Step st; st.is_key = false; st.idx = 0; p.push_back(st); }
    else if (text[0] == '{') { refjson::Step st; st.is_key = true; st.key = "a"; p.push_back(st); }
  }
  int place = (int)s.weighted({2, 3, 1});
  c.note("text", text);
  c.note("path", path_encode(p));
  c.note("place", std::to_string(place));
  static const char* pn[] = {"heap-exact", "page-end", "page-start"};
  c.cls("input:" + what.substr(0, what.find('@')));
  c.cls(std::string("place:") + pn[place]);
  c.cls("len%64=" + std::to_string(text.size() % 64 / 16 * 16) + "..");
  c.nt(text.size() >= 1 && !p.empty());
  if (c.counting) c.desc(std::string(pn[place]) + " path=" + refjson::path_show(p) + " text=" + printable(text, 90));
  std::string m = judge_raw(text, p, place, c);
  if (!m.empty()) c.fail(m + " | path=" + refjson::path_show(p) + " text=" + printable(text, 300));
  // every prefix of small texts (systematic truncation)
  if (what == "valid" && text.size() <= 200 && s.coin(1, 3)) {
    for (size_t n = 0; n < text.size(); n++) {
      std::string pre = text.substr(0, n);
      c.note("text", pre);
      std::string m2 = judge_raw(pre, p, place, c);
      c.subevals++;
      if (!m2.empty()) c.fail(m2 + " | [prefix " + std::to_string(n) + "] path=" + refjson::path_show(p) + " text=" + printable(pre, 300));
    }
    c.cls("all-prefixes");
  }
}

static void direct(const Fields& f, Case& c) {
  const std::string* t = field(f, "text");
  if (!t) {
    // libFuzzer input: byte 0 = number of path steps (0..5), then steps (kind byte + payload), rest = text
    const std::string* raw = field(f, "raw");
    if (!raw) c.fail("replay has neither text nor raw");
    refjson::Path p;
    size_t i = 0;
    size_t n = raw->size() ? (unsigned char)(*raw)[i++] % 6 : 0;
    for (size_t k = 0; k < n && i < raw->size(); k++) {
      unsigned char sel = (unsigned char)(*raw)[i++];
      if (sel & 1) {
        long idx = (sel >> 1) % 8 - 1;
        p.push_back(refjson::Step::I(idx));
      } else {
        size_t kl = (sel >> 1) % 5;
        std::string key = raw->substr(std::min(i, raw->size()), kl);
        i = std::min(raw->size(), i + kl);
        p.push_back(refjson::Step::K(key));
      }
    }
    std::string text = raw->substr(std::min(i, raw->size()));
    std::string m = judge_raw(text, p, 0, c);
    if (!m.empty()) c.fail(m + " | path=" + refjson::path_show(p) + " text=" + printable(text, 300));
#ifndef VF_C11
    refjson::Result r = refjson::parse(text);
    if (r.ok && !r.bad_surrogate) {
      m = judge_valid(text, r.value, p, 0, c);
      if (!m.empty()) c.fail(m + " | text=" + printable(text, 300));
    }
#endif
    return;
  }
  refjson::Path p = path_decode(field(f, "path") ? *field(f, "path") : std::string());
  int place = field(f, "place") ? atoi(field(f, "place")->c_str()) : 0;
#ifdef VF_C11
  std::string m = judge_raw(*t, p, place, c);
#else
  refjson::Result r = refjson::parse(*t);
  if (!r.ok || r.bad_surrogate) return;  // C10 is about valid texts
  std::string m;
  for (uint64_t pr = 0; pr < 4 && m.empty(); pr++) {
    if (field(f, "podprior") && (uint64_t)atol(field(f, "podprior")->c_str()) != pr) continue;
    g_pod_prior = pr;
    m = judge_valid(*t, r.value, p, place, c);
  }
#endif
  if (!m.empty()) c.fail(m + " | path=" + refjson::path_show(p) + " text=" + printable(*t, 300));
}

static void init() { g_arena = new GuardArena(64); }

}  // namespace

#ifdef VF_FUZZ
extern "C" int LLVMFuzzerTestOneInput(const uint8_t* data, size_t size) {
#ifdef VF_C11
  static HarnessDef def{"fz_ondemand_raw", "C11", nullptr, direct, init, nullptr};
#else
  static HarnessDef def{"fz_ondemand", "C10", nullptr, direct, init, nullptr};
#endif
  return fuzz_bytes(def, data, size, "raw");
}
#elif defined(VF_C11)
VF_HARNESS_MAIN((HarnessDef{"c11_ondemand_raw", "C11", property_c11, direct, init, nullptr}))
#else
VF_HARNESS_MAIN((HarnessDef{"c10_ondemand", "C10", property_c10, direct, init, nullptr}))
#endif
