#!/bin/sh
# dev helper: rebuild support lib + one harness (asan flavour)
set -e
cd /verif
for f in harness refjson genjson engine_rc; do g++ -std=gnu++17 -O2 -g -c src/common/$f.cpp -o build/$f.o; done
ar rcs build/libverifsupport.a build/harness.o build/refjson.o build/genjson.o build/engine_rc.o
[ -n "$1" ] && clang++ -std=gnu++17 -O1 -g -march=haswell -fsanitize=address -fno-sanitize-recover=all -I/repo/include -Isrc src/$1.cpp build/libverifsupport.a -lrapidcheck -o build/$1.asan
