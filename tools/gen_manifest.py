#!/usr/bin/env python3
"""Regenerates /verif/MANIFEST.json from checkspec.PROPS (claimed) and checkspec.NOT_APPLICABLE."""
import json, os, sys
ROOT = os.path.dirname(os.path.dirname(os.path.abspath(__file__)))
sys.path.insert(0, ROOT)
import checkspec
props = [json.loads(l) for l in open(os.path.join(ROOT, 'properties.jsonl'))]
ids = [p['id'] for p in props]
checks = []
for pid in ids:
    if pid not in checkspec.PROPS:
        continue
    sp = checkspec.PROPS[pid]
    engines = sorted({(u.get('engine') or 'libfuzzer') if u.get('kind') != 'fuzz' else 'libfuzzer' for u in sp['units']})
    checks.append(dict(
        property_id=pid,
        quick_cmd='./check %s --tier quick' % pid,
        thorough_cmd='./check %s --tier thorough' % pid,
        evidence_file='evidence/%s.json' % pid,
        replay_cmd_template='./check %s --replay {path}' % pid,
        engine='+'.join(engines),
        level_claimed=dict(category='exploration', text=sp.get('level_text') or (
            'Generated-input search against an explicit oracle: the property held on every case explored '
            '(counts, class histogram and samples in the evidence file); no claim beyond the explored cases.'),
            design_ref='DESIGN.md section 4, ' + pid),
        level_note=sp.get('level_note') or '; '.join(sp.get('assumptions', []) + ['oracle independent of the code under test (see DESIGN.md section 1)']),
        technique=sp.get('technique', 'property-based testing (rapidcheck + seeded PRNG generators) and libFuzzer against an explicit oracle'),
    ))
na = [dict(property_id=k, reason=v) for k, v in checkspec.NOT_APPLICABLE.items() if k not in checkspec.PROPS]
for pid in ids:
    if pid not in checkspec.PROPS and pid not in checkspec.NOT_APPLICABLE:
        na.append(dict(property_id=pid, reason='check not built yet in this revision of /verif (planned: DESIGN.md section 4); not claimed'))
man = dict(
    version=1,
    setup_cmd='./check --setup',
    hooks=dict(guard='SONIC_CPP_VERIF', enable='none needed: no hook commits exist; code paths are selected by compiler flags only (see DESIGN.md section 9)',
               baseline_off_cmd='python3 tools/baseline.py', source_commits=[], add_only=True),
    engines=[dict(name='verif-harness', path='src/common', serves_properties=[c['property_id'] for c in checks],
                  kind_free_text='property runtime: Src pick-sequence abstraction driven by rapidcheck (generation only: its shrinking is switched off), a seeded counter PRNG, libFuzzer bytes, or a replay file; bounded pick-list shrinker; replay files that carry the preceding cases; per-case watchdog; stats/evidence'),
             dict(name='refjson', path='src/common/refjson.cpp', serves_properties=[c['property_id'] for c in checks],
                  kind_free_text='independent RFC 8259 reference: recogniser, parser to model values, unescaper, writer, pointer resolver')],
    checks=checks,
    not_applicable=na,
    notes='All checks are exploration-level (property-based testing / fuzzing). Known findings: known_findings.json. Design: DESIGN.md.',
)
json.dump(man, open(os.path.join(ROOT, 'MANIFEST.json'), 'w'), indent=1)
print('MANIFEST.json: %d checks, %d not_applicable' % (len(checks), len(na)))
