#!/usr/bin/env python3
"""Rebuild the repository's own gtest binary (guard OFF: no verification define is ever passed to it) and
check that every test listed as stable_pass in /root/.vp/BASELINE.json passes."""
import json, subprocess, sys, os, tempfile
repo = '/repo'
if '--repo' in sys.argv: repo = sys.argv[sys.argv.index('--repo') + 1]
r = subprocess.run(['true' if '--no-build' in sys.argv else 'cmake', '--build', os.path.join(repo, '_build')], stdout=subprocess.PIPE, stderr=subprocess.STDOUT, text=True)
if r.returncode != 0:
    print(r.stdout[-3000:]); print('BASELINE: build failed'); sys.exit(2)
out = tempfile.mktemp(suffix='.json')
subprocess.run([os.path.join(repo, '_build/tests/unittest'), '--gtest_output=json:' + out], cwd=repo, stdout=subprocess.DEVNULL, stderr=subprocess.DEVNULL)
res = json.load(open(out)); os.unlink(out)
status = {}
for suite in res['testsuites']:
    for t in suite['testsuite']:
        status[suite['name'] + '::' + t['name']] = (t.get('result') == 'COMPLETED' and not t.get('failures'))
base = json.load(open('/root/.vp/BASELINE.json'))['stable_pass']
bad = [t for t in base if not status.get(t, False)]
print('BASELINE: %d/%d stable tests pass' % (len(base) - len(bad), len(base)))
for t in bad: print('  FAILED/MISSING:', t)
sys.exit(1 if bad else 0)
