#!/usr/bin/env python3
"""Setup self-test: the independent reference (src/common/refjson.cpp) against python's json module on generated
valid and invalid texts (accept/reject and value). A disagreement here is a bug in the ORACLE and fails setup."""
import json, os, random, subprocess, sys
ROOT = os.path.dirname(os.path.dirname(os.path.abspath(__file__)))
BUILD = os.environ.get('VERIF_BUILD_DIR') or os.path.join(ROOT, 'build')
cli = os.path.join(BUILD, 'refjson_cli')
src = os.path.join(ROOT, 'src', 'common')
r = subprocess.run(['g++', '-std=gnu++17', '-O2', os.path.join(src, 'refjson_cli.cpp'), os.path.join(src, 'refjson.cpp'), '-o', cli],
                   stdout=subprocess.PIPE, stderr=subprocess.STDOUT, text=True)
if r.returncode != 0:
    print(r.stdout); print('oracle cross-check: build failed'); sys.exit(1)
rnd = random.Random(20260927)
N = int(os.environ.get('VERIF_CROSSCHECK_N', '60000'))

def gen_value(d=0):
    k = rnd.random()
    if d > 4 or k < 0.45:
        c = rnd.randrange(8)
        if c == 0: return None
        if c == 1: return rnd.random() < 0.5
        if c == 2: return rnd.randrange(-10**rnd.randrange(1, 25), 10**rnd.randrange(1, 25))
        if c == 3: return rnd.choice([0.5, 1e300, -2.5e-7, 123.456, 1e-320, 5e-324, 1.7976931348623157e308, 0.1, -0.0])
        if c == 4: return rnd.random() * 10**rnd.randrange(-30, 30)
        return ''.join(rnd.choice(['a', 'b', ' ', '"', '\\', '/', '\n', '\t', 'é', '€', '\U0001F600', '\x01', '{', ']', ',']) for _ in range(rnd.randrange(0, 12)))
    if k < 0.72:
        return [gen_value(d + 1) for _ in range(rnd.randrange(0, 5))]
    return {(''.join(rnd.choice('abk"\\\né') for _ in range(rnd.randrange(0, 4)))): gen_value(d + 1) for _ in range(rnd.randrange(0, 5))}

def render(v):
    seps = rnd.choice([(',', ':'), (', ', ': '), (' ,\n', ' :\t')])
    t = json.dumps(v, ensure_ascii=rnd.random() < 0.5, separators=seps)
    return rnd.choice(['', ' ', '\n\t']) + t + rnd.choice(['', ' ', '\r\n'])

ALPHA = '[]{},:"\\0123456789-+.eEtrufalsn \t\n/xu\x01'
def mutate(t):
    k = rnd.randrange(6)
    if not t: return 'x'
    i = rnd.randrange(len(t))
    if k == 0: return t[:i]
    if k == 1: return t[:i] + rnd.choice(ALPHA) + t[i + 1:]
    if k == 2: return t[:i] + rnd.choice(ALPHA) + t[i:]
    if k == 3: return t[:i] + t[i + 1:]
    if k == 4: return t + rnd.choice(['x', ']', ',', '1', ' 1', '"'])
    return t.replace('1', rnd.choice(['01', '1.', '.5', '1e', '+1', '1e999', '-']), 1)

def py_parse(t):
    def bad_const(c): raise ValueError('constant ' + c)
    return json.loads(t, parse_constant=bad_const)

texts = []
for i in range(N):
    t = render(gen_value())
    if rnd.random() < 0.5: t = mutate(t)
    if rnd.random() < 0.1: t = mutate(t)
    texts.append(t)
inp = '\n'.join(t.encode('utf-8', 'surrogatepass').hex() for t in texts) + '\n'
out = subprocess.run([cli], input=inp.encode(), stdout=subprocess.PIPE).stdout.decode('utf-8', 'surrogatepass').split('\n')
if out and out[-1] == '': out.pop()
if len(out) != len(texts):
    print('oracle cross-check: CLI produced %d lines for %d texts' % (len(out), len(texts))); sys.exit(1)

def norm(v):
    # integers beyond uint64 / below int64 are doubles in the reference
    if isinstance(v, bool) or v is None or isinstance(v, str): return v
    if isinstance(v, int): return v if -2**63 <= v <= 2**64 - 1 else norm(float(v))
    if isinstance(v, float): return ('f', v.hex())
    if isinstance(v, list): return [norm(x) for x in v]
    return [(k, norm(x)) for k, x in v.items()]
def pairs_hook(p): return dict(p) if len({k for k, _ in p}) == len(p) else ('dup', [(k, v) for k, v in p])

bad = acc = rej = 0
for t, o in zip(texts, out):
    try:
        pv = py_parse(t); ok = True
        if isinstance(pv, float) and pv in (float('inf'), float('-inf')): ok = False
    except (ValueError, RecursionError):
        ok = False
    # python turns 1e999 into inf silently: find any infinity anywhere => the reference must reject (number-overflow)
    def has_inf(v):
        if isinstance(v, float): return v != v or v in (float('inf'), float('-inf'))
        if isinstance(v, list): return any(has_inf(x) for x in v)
        if isinstance(v, dict): return any(has_inf(x) for x in v.values())
        return False
    if ok and has_inf(pv): ok = False
    ref_ok = o.startswith('A ')
    if ok != ref_ok:
        bad += 1
        if bad <= 5: print('DISAGREE accept/reject: python=%s reference=%r text=%r' % (ok, o[:60], t[:120]))
        continue
    if ok:
        acc += 1
        rv = py_parse(o[2:])
        if norm(rv) != norm(pv):
            bad += 1
            if bad <= 5: print('DISAGREE value: text=%r reference=%r' % (t[:120], o[:120]))
    else:
        rej += 1
print('oracle cross-check: %d texts (%d accepted, %d rejected), %d disagreements' % (len(texts), acc, rej, bad))
sys.exit(1 if bad else 0)
