#!/usr/bin/env python3
"""usage: selftest/try_seed.py <name> [--tier quick|thorough] <PROP>...
Applies /verif/seeded/<name>/patch.diff to a scratch worktree of /repo HEAD and runs the given checks against it (private
build and evidence directories); records the outcome in seeded/<name>/meta.json; removes the worktree."""
import json, os, subprocess, sys
name = sys.argv[1]; args = sys.argv[2:]
tier = 'quick'
if args and args[0] == '--tier': tier = args[1]; args = args[2:]
d = os.path.join('/verif/seeded', name); wt = '/tmp/ts-' + name
def sh(c): return subprocess.run(c, shell=True, stdout=subprocess.PIPE, stderr=subprocess.STDOUT, text=True)
sh('git -C /repo worktree remove --force ' + wt)
if sh('git -C /repo worktree add -q %s HEAD' % wt).returncode: sys.exit('worktree failed')
if sh('git -C %s apply %s/patch.diff' % (wt, d)).returncode: sh('git -C /repo worktree remove --force ' + wt); sys.exit('patch does not apply')
r = sh('/verif/selftest/run_tree.sh %s %s %s' % (wt, tier, ' '.join(args)))
print(r.stdout.strip())
meta = json.load(open(os.path.join(d, 'meta.json')))
for line in r.stdout.strip().splitlines():
    parts = line.split(' ', 3)
    if len(parts) >= 3 and parts[0].startswith('C'):
        meta.setdefault('checks_run', [])
        meta['checks_run'] = [c for c in meta['checks_run'] if not (c['check'] == parts[0] and c['tier'] == tier)]
        meta['checks_run'].append(dict(check=parts[0], tier=tier, result='VIOLATION reported' if 'rc=1' in parts[1] else ('passed (missed)' if 'rc=0' in parts[1] else 'check broken'),
                                       detail=(parts[3] if len(parts) > 3 else '')[:300]))
json.dump(meta, open(os.path.join(d, 'meta.json'), 'w'), indent=1)
sh('git -C /repo worktree remove --force ' + wt)
