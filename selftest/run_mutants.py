#!/usr/bin/env python3
"""Mutation sensitivity: small hand-written changes to the library (string replacements), each applied to a scratch copy
of /repo's headers; the owning check must report a VIOLATION at its quick tier. (These mutants are not checked against the
library's own unit suite - the independently written changes under seeded/ are.)
usage: selftest/run_mutants.py [name-substring ...]     results are appended to selftest/mutants_last_run.txt"""
import os, shutil, subprocess, sys, tempfile, time

M = [
 # name, checks, file (under include/sonic), old, new
 ('C01-no-trailing-check', ['C01'], 'dom/parser.h', 'if (!internal::IsSpace(json_buf_[pos_])) return true;', 'if (!internal::IsSpace(json_buf_[pos_])) return false;'),
 ('C01-accept-1dot', ['C01'], 'dom/parser.h', '''    if (sonic_likely(s[i] == '.')) {
      i++;
      CHECK_DIGIT();
      exp10_s = i;
      goto double_fract;
    }
    if (sonic_unlikely(s[i] == 'e' || s[i] == 'E')) goto double_exp;''', '''    if (sonic_likely(s[i] == '.')) {
      i++;
      exp10_s = i;
      goto double_fract;
    }
    if (sonic_unlikely(s[i] == 'e' || s[i] == 'E')) goto double_exp;'''),
 ('C01-offset-unclamped', ['C01'], 'dom/parser.h', 'static_cast<size_t>(pos_ < len_ ? pos_ : len_)', 'static_cast<size_t>(pos_)'),
 ('C02-teardown-one-too-many', ['C02'], 'dom/handler.h', 'for (size_t i = 0; i < np_; i++) {\n      st_[i].~NodeType();', 'for (size_t i = 0; i <= np_; i++) {\n      st_[i].~NodeType();'),
 ('C02-padding-16', ['C02', 'C01'], 'dom/generic_document.h', '''  SonicError allocateStringBuffer(const char* json, size_t len) {
    size_t pad_len = len + 64;''', '''  SonicError allocateStringBuffer(const char* json, size_t len) {
    size_t pad_len = len + 3;'''),
 ('C03-skip-space-cache-off-by-one', ['C03', 'C01'], 'internal/arch/common/x86_common/skip.inc.h', '''  // current pos is out of block
  if (pos >= nonspace_bits_end) {
  found_space:
    while (1) {''', '''  // current pos is out of block
  if (pos > nonspace_bits_end) {
  found_space:
    while (1) {'''),
 ('C04-exact-path-exp-38', ['C04'], 'dom/parser.h', 'exp10 <= (22 + 15) && exp10 >= -22', 'exp10 <= (22 + 16) && exp10 >= -22'),
 ('C04-uint64-boundary', ['C04'], 'dom/parser.h', 'num <= UINT_MAX % 10', 'num <= 6'),
 ('C04-drop-trunc-retry', ['C04'], 'dom/parser.h', '''      if (internal::AtofEiselLemire64(man + 1, exp10, sgn, &val_up) &&
          val_up == d.val) {''', '''      if (true) {'''),
 ('C05-surrogate-shift', ['C05'], 'internal/arch/common/unicode_common.h', '(((code_point - 0xd800) << 10) | low_bits) + 0x10000', '(((code_point - 0xd800) << 10) + low_bits) + 0x10001'),
 ('C05-find-and-move-no-ctrl-check', ['C05', 'C01'], 'internal/arch/common/x86_common/quote.inc.h', "static_cast<uint32_t>((v <= '\\x1f').to_bitmask()),\n    };\n    // If the next thing is the end quote", "static_cast<uint32_t>(0),\n    };\n    // If the next thing is the end quote"),
 ('C06-string-grow-5x', ['C06', 'C09'], 'dom/serialize.h', 'inc_len = str_len * 6 + 32 + 3;', 'inc_len = str_len * 5 + 32 + 3;'),
 ('C06-number-size-20', ['C06'], 'dom/serialize.h', 'constexpr size_t kNumberSize = 33;', 'constexpr size_t kNumberSize = 20;'),
 ('C07-sci-switch', ['C07'], 'internal/ftoa.h', 'bool exp_fmt = sci_exp < -6 || sci_exp > 20;', 'bool exp_fmt = sci_exp < -7 || sci_exp > 20;'),
 ('C07-even-inclusion', ['C07'], 'internal/ftoa.h', 'upper = vbr - !even;', 'upper = vbr - even;'),
 ('C08-div10k-constant', ['C08'], 'internal/arch/common/x86_common/itoa.h', 'kVec4xDiv10k[4] sonic_align(16) = {\n    0xd1b71759,', 'kVec4xDiv10k[4] sonic_align(16) = {\n    0xd1b71758,'),
 ('C08-17-20-boundary', ['C08'], 'internal/itoa.h', 'if (hi < 100) {  // 2 digits', 'if (hi <= 100) {  // 2 digits'),
 ('C09-tail-mask-off-by-one', ['C09'], 'internal/arch/common/x86_common/quote.inc.h', '(VEC_FULL_MASK >> (VEC_LEN - nb))', '(VEC_FULL_MASK >> (VEC_LEN - nb + 1))'),
 ('C09-page-guard', ['C09'], 'internal/arch/common/x86_common/quote.inc.h', '<= (PAGE_SIZE - VEC_LEN * 2)) {', '<= (PAGE_SIZE - 1)) {'),
 ('C10-key-length-compare-dropped', ['C10'], 'internal/arch/simd_skip.h', 'if (sn == static_cast<long>(key.size()) &&\n        std::memcmp(sp, key.data(), sn) == 0) {', 'if (sn >= static_cast<long>(key.size()) &&\n        std::memcmp(sp, key.data(), key.size()) == 0) {'),
 ('C10-instring-carry', ['C10'], 'internal/arch/common/x86_common/skip.inc.h', 'prev_instring = uint64_t(static_cast<int64_t>(in_string) >> 63);', 'prev_instring = 0;'),
 ('C11-skip-space-bound', ['C11'], 'internal/arch/common/x86_common/skip.inc.h', 'if (pos + 64 + 2 > len) {\n    goto tail;', 'if (pos + 2 > len) {\n    goto tail;'),
 ('C11-key-buffer-too-small', ['C11', 'C05'], 'internal/arch/simd_skip.h', 'kbuf.resize(sn + 32);', 'kbuf.resize(sn + 1);'),
 ('C12-map-index-not-repaired', ['C12'], 'dom/dynamicnode.h', '        map->emplace(std::make_pair(m->name.GetStringView(), pos));\n      }\n    } else {', '      }\n    } else {'),
 ('C12-erase-memmove-short', ['C12'], 'dom/dynamicnode.h', 'sizeof(MemberNode) * (end - last));', 'sizeof(MemberNode) * (end - last - (end - last > 1 ? 1 : 0)));'),
 ('C12-erase-keeps-map', ['C12'], 'dom/dynamicnode.h', '    // Destroy map before removing members.\n    DestroyMap();', '    // Destroy map before removing members.'),
 ('C13-string-not-freed', ['C13'], 'dom/dynamicnode.h', '      case kStringFree:\n        Allocator::Free((void*)(this->sv.p));\n        break;', '      case kStringFree:\n        break;'),
 ('C13-rawassign-keeps-source', ['C13', 'C12'], 'dom/dynamicnode.h', '    this->data = rhs.data;\n    rhs.setType(kNull);', '    this->data = rhs.data;\n    if (!rhs.IsString()) rhs.setType(kNull);'),
 ('C14-in-page-constant', ['C14'], 'internal/arch/avx2/base.h', 'return ((addr) & (PageSize - 1)) <= (PageSize - VecLen);', 'return ((addr) & (PageSize - 1)) <= (PageSize - 1);'),
 ('C14-first-block-dropped', ['C14'], 'internal/arch/avx2/base.h', '    ans = _mm256_and_si256(ans, ans_1);\n    unsigned int mask = _mm256_movemask_epi8(ans) + 1;', '    unsigned int mask = _mm256_movemask_epi8(ans) + 1;'),
 ('C15-sse-tail-mask', ['C15', 'C09'], 'internal/arch/sse/quote.h', '#define VEC_FULL_MASK 0xFFFF', '#define VEC_FULL_MASK 0x7FFF'),
 ('C16-chunk-full-test', ['C16'], 'allocator.h', 'if (sonic_unlikely(shared_->chunkHead->size + size >\n                       shared_->chunkHead->capacity)) {', 'if (sonic_unlikely(shared_->chunkHead->size >\n                       shared_->chunkHead->capacity)) {'),
 ('C16-inplace-no-capacity-test', ['C16'], 'allocator.h', '        if (shared_->chunkHead->size + increment <=\n            shared_->chunkHead->capacity) {', '        if (true) {'),
 ('C16-realloc-copies-newsize', ['C16'], 'allocator.h', 'if (originalSize) std::memcpy(newBuffer, originalPtr, originalSize);', 'if (originalSize) std::memcpy(newBuffer, originalPtr, originalSize / 2);'),
 ('C16-clear-keeps-size', ['C16'], 'allocator.h', '    shared_->chunkHead->size = 0;\n  }\n\n  //! Computes the total capacity', '  }\n\n  //! Computes the total capacity'),
 ('C17-realloc-unlocked', ['C17'], 'allocator.h', '''    {
      LOCK_GUARD;
      if (originalPtr ==''', '''    {
      if (originalPtr =='''),
 ('C17-static-null-node', ['C17'], 'dom/dynamicnode.h', 'static thread_local DNode tmp{};', 'static DNode tmp{};'),
 ('C18-no-size-check', ['C18'], 'dom/dynamicnode.h', '''      case kObject: {
        if (this->Size() != rhs.Size()) {
          return false;
        }''', '''      case kObject: {'''),
 ('C18-number-compare-8-bytes', ['C18'], 'dom/dynamicnode.h', 'return !std::memcmp(this, &rhs, sizeof(rhs));', 'return !std::memcmp(this, &rhs, 8);'),
 ('C19-counter-not-restored', ['C19'], 'dom/schema_handler.h', '      found_node_count_ = found_count_st_.back();\n      found_count_st_.pop_back();\n      np_ = 0;', '      np_ = 0;'),
 ('C19-array-keeps-old-object', ['C19'], 'dom/schema_handler.h', '      // must not be consulted as a schema object for the array\'s elements.\n      parent_node_->SetNull();', '      // must not be consulted as a schema object for the array\'s elements.'),
 ('C20-empty-target-test', ['C20'], 'experiment/lazy_update.h', 'if (!target.IsObject() || !source.IsObject() || target.Empty()) {', 'if (!target.IsObject() || !source.IsObject()) {'),
 ('C20-escaped-key-copy-length', ['C20', 'C05'], 'dom/parser.h', '      std::memcpy(dst, src, sn + 1);\n      sn = internal::parseStringInplace(dst, err);', '      std::memcpy(dst, src, sn);\n      sn = internal::parseStringInplace(dst, err);'),
]


def main():
    want = sys.argv[1:]
    res = []
    for name, checks, rel, old, new in M:
        if want and not any(w in name for w in want):
            continue
        scratch = tempfile.mkdtemp(prefix='mut-')
        shutil.copytree('/repo/include', os.path.join(scratch, 'include'))
        p = os.path.join(scratch, 'include', 'sonic', rel)
        s = open(p).read()
        if s.count(old) != 1:
            res.append((name, 'MUTANT-DOES-NOT-APPLY (%d matches)' % s.count(old)))
            print(res[-1]); shutil.rmtree(scratch); continue
        open(p, 'w').write(s.replace(old, new))
        caught = []
        detail = ''
        t0 = time.time()
        for ck in checks:
            env = dict(os.environ, VERIF_REPO=scratch, VERIF_BUILD_DIR=os.path.join(scratch, 'build'), VERIF_EVIDENCE_DIR=os.path.join(scratch, 'ev'))
            r = subprocess.run(['/verif/check', ck, '--tier', 'quick'], stdout=subprocess.PIPE, stderr=subprocess.STDOUT, text=True, env=env)
            if r.returncode == 1 and 'VIOLATION property=' in r.stdout:
                caught.append(ck)
                if not detail:
                    fl = [l for l in r.stdout.splitlines() if 'failing case' in l]
                    detail = fl[0].strip()[:200] if fl else ''
            elif r.returncode == 2:
                detail = detail or ('%s: ' % ck + ' '.join(l for l in r.stdout.splitlines() if 'BROKEN' in l or 'ERROR' in l)[:200])
        verdict = 'CAUGHT by ' + '+'.join(caught) if caught else 'SURVIVED'
        res.append((name, '%s (checks run: %s; %.0fs) %s' % (verdict, ','.join(checks), time.time() - t0, detail)))
        print(name, res[-1][1], flush=True)
        shutil.rmtree(scratch)
    with open('/verif/selftest/mutants_last_run.txt', 'a') as f:
        f.write('# run %s\n' % time.strftime('%Y-%m-%d %H:%M'))
        for n, v in res:
            f.write('%s: %s\n' % (n, v))


if __name__ == '__main__':
    main()
