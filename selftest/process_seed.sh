#!/bin/sh
# usage: selftest/process_seed.sh <seed-out-dir> <name> <PROP> [more props...]   (confirm independently, keep, try the checks)
out=$1; name=$2; shift 2
python3 /verif/selftest/confirm_seed.py $out $name --keep-as $1 || exit 1
python3 /verif/selftest/try_seed.py $name "$@"
