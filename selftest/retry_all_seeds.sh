#!/bin/sh
# usage: selftest/retry_all_seeds.sh [name-prefix]   - re-tries every seeded change against the check of the property it breaks
# (quick tier, scratch worktree, private build dir); prints one line per seed; updates seeded/*/meta.json
cd /verif
for d in seeded/${1:-}*/; do
  n=$(basename $d)
  p=$(python3 -c "import json;print(json.load(open('$d/meta.json'))['breaks_property'][:3])")
  echo "$n: $(python3 selftest/try_seed.py $n $p 2>&1 | tail -1 | cut -c1-160)"
done
