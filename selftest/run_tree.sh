#!/bin/sh
# usage: selftest/run_tree.sh <repo-tree> <tier> <prop>...
# Runs the given checks against another source tree (a scratch copy or worktree of bytedance/sonic-cpp) with a private
# build and evidence directory, so that neither /verif/build nor /verif/evidence is touched. Prints one line per property.
tree=$1; tier=$2; shift 2
scratch=$(mktemp -d /tmp/vrun-XXXXXX)
for p in "$@"; do
  out=$(VERIF_REPO=$tree VERIF_BUILD_DIR=$scratch/build VERIF_EVIDENCE_DIR=$scratch/evidence /verif/check $p --tier $tier 2>&1)
  rc=$?
  first=$(printf '%s\n' "$out" | grep -m1 -E "failing case|CHECK-BROKEN|BUILD-ERROR" | cut -c1-260)
  nviol=$(printf '%s\n' "$out" | grep -c "^VIOLATION")
  echo "$p rc=$rc violations=$nviol $first"
done
rm -rf $scratch
