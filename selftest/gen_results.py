#!/usr/bin/env python3
"""Regenerates the seeded-changes table of selftest/RESULTS.md from seeded/*/meta.json (between the markers)."""
import glob, json, os, re
root = os.path.dirname(os.path.dirname(os.path.abspath(__file__)))
rows = []
for p in sorted(glob.glob(os.path.join(root, 'seeded', '*', 'meta.json'))):
    m = json.load(open(p))
    runs = []
    own = m.get('breaks_property', '')[:3]
    for c in sorted(m.get('checks_run', []), key=lambda c: (c['check'] != own, c['check'])):
        runs.append('%s: %s' % (c['check'], c['result']))
    cell = '; '.join(runs)
    if m.get('history'):
        cell += ' — ' + m['history']
    rows.append('| %s | %s | %s | %s |' % (m['name'], m.get('breaks_property', ''), (m.get('needs_to_manifest') or '').replace('|', '/'), cell.replace('|', '/')))
table = '\n'.join(['| seeded change | breaks | needs to manifest | checks run (quick tier) |', '|---|---|---|---|'] + rows)
path = os.path.join(root, 'selftest', 'RESULTS.md')
s = open(path).read()
a, b = '<!-- seeds:begin -->', '<!-- seeds:end -->'
if a in s:
    s = s[:s.index(a) + len(a)] + '\n' + table + '\n' + s[s.index(b):]
else:
    s = re.sub(r'\| seeded change \|.*?\n\n', lambda _m: a + '\n' + table + '\n' + b + '\n\n', s, count=1, flags=re.S)
open(path, 'w').write(s)
print(len(rows), 'seeded changes')
