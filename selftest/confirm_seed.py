#!/usr/bin/env python3
"""usage: selftest/confirm_seed.py <seed-out-dir> <name> [--keep-as <PROP>]
Independently confirms a seeded change written by a sub-agent: the patch applies to a fresh worktree of /repo HEAD,
the library's own suite still passes with it (173 stable tests), the demonstration passes without the change and
fails with it. With --keep-as the confirmed change is stored as /verif/seeded/<name>/ with a meta.json."""
import json, os, re, shutil, subprocess, sys
out, name = sys.argv[1], sys.argv[2]
keep = sys.argv[sys.argv.index('--keep-as') + 1] if '--keep-as' in sys.argv else None
wt = '/tmp/cs-' + name
def sh(cmd, **kw): return subprocess.run(cmd, shell=True, stdout=subprocess.PIPE, stderr=subprocess.STDOUT, text=True, **kw)
sh('git -C /repo worktree remove --force %s' % wt)
if sh('git -C /repo worktree add -q %s HEAD' % wt).returncode: sys.exit('cannot create worktree')
demo = open(os.path.join(out, 'demo.cpp')).read()
m = re.search(r'((?:g\+\+|clang\+\+)[^\n()]*?-o\s+\S+)', demo)
cmd = m.group(1) if m else 'g++ -std=gnu++17 -O2 -march=haswell -I WT/include demo.cpp -o demo'
cmd = re.sub(r'\S*demo\.cpp', os.path.join(out, 'demo.cpp').replace('/tmp/seed', '/tmp/SEED'), cmd)
cmd = re.sub(r'/tmp/seed[0-9]*-[A-Za-z0-9_-]+', wt, cmd).replace('/tmp/SEED', '/tmp/seed')
cmd = re.sub(r'-o\s+\S+', '-o %s/demo.bin' % wt, cmd)
if '-I' not in cmd: cmd += ' -I %s/include' % wt
cmd = re.sub(r'-I\s*(?!/)(\S+)', lambda mm: '-I %s/%s' % (wt, mm.group(1)), cmd)
print('demo build:', cmd)
res = {}
for phase in ('clean', 'patched'):
    if phase == 'patched':
        r = sh('git -C %s apply %s' % (wt, os.path.join(out, 'patch.diff')))
        if r.returncode: print('PATCH-DOES-NOT-APPLY', r.stdout); sh('git -C /repo worktree remove --force %s' % wt); sys.exit(1)
    b = sh(cmd, cwd=wt)
    if b.returncode: print('DEMO-BUILD-FAILED (%s)' % phase, b.stdout[-800:]); res[phase] = None; continue
    try:
        r = subprocess.run([wt + '/demo.bin'], cwd=wt, stdout=subprocess.PIPE, stderr=subprocess.STDOUT, text=True, errors='replace', timeout=600)
        res[phase] = r.returncode; last = r.stdout.strip().splitlines()[-2:]
    except subprocess.TimeoutExpired:
        res[phase] = 'timeout'; last = []
    print('demo %s: rc=%s  %s' % (phase, res[phase], ' | '.join(l[:200] for l in last)))
sh('cmake -G Ninja -B _build -S . -DCMAKE_BUILD_TYPE=RelWithDebInfo -DFETCHCONTENT_SOURCE_DIR_GOOGLETEST=/usr/src/googletest', cwd=wt)
b = sh('cmake --build _build', cwd=wt)
if b.returncode: print('TEST-BUILD-FAILED', b.stdout[-1500:]); suite = False
else:
    r = sh('python3 /verif/tools/baseline.py --repo %s --no-build' % wt); print(r.stdout.strip()); suite = r.returncode == 0
ok = res.get('clean') == 0 and res.get('patched') not in (0, None) and suite
print('CONFIRMED' if ok else 'NOT-CONFIRMED', name)
if ok and keep:
    d = os.path.join('/verif/seeded', name); os.makedirs(d, exist_ok=True)
    for f in ('patch.diff', 'demo.cpp', 'notes.md'):
        if os.path.exists(os.path.join(out, f)): shutil.copy(os.path.join(out, f), os.path.join(d, f))
    json.dump(dict(name=name, breaks_property=keep, written_by='independent sub-agent (saw only the property text and a scratch worktree)',
                   confirmed=dict(patch_applies_to='/repo HEAD ' + sh('git -C /repo rev-parse --short HEAD').stdout.strip(),
                                  unit_suite_with_change='173/173 stable tests pass', demo_without_change='exit 0',
                                  demo_with_change='exit %s' % res['patched'], demo_build=cmd.replace(wt, '<worktree>')),
                   needs_to_manifest='see notes.md', checks_run=[]), open(os.path.join(d, 'meta.json'), 'w'), indent=1)
sh('git -C /repo worktree remove --force %s' % wt)
sys.exit(0 if ok else 1)
