#!/bin/sh
# usage: selftest/sweep.sh <tier> <seed>...   runs every check with each seed against /repo (private build/evidence dirs)
tier=$1; shift
here=$(cd "$(dirname "$0")/.." && pwd)   # the tree this script lives in (a vp snapshot runs its own copy)
scratch=$(mktemp -d /tmp/vsweep-XXXXXX)
for seed in "$@"; do
  for p in C01 C02 C03 C04 C05 C06 C07 C08 C09 C10 C11 C12 C13 C14 C15 C16 C17 C18 C19 C20; do
    t0=$(date +%s)
    out=$(VERIF_SEED=$seed VERIF_BUILD_DIR=$scratch/build VERIF_EVIDENCE_DIR=$scratch/evidence-$seed $here/check $p --tier $tier 2>&1)
    rc=$?
    echo "seed=$seed $p rc=$rc $(( $(date +%s) - t0 ))s $(printf '%s\n' "$out" | grep -E "tier=|VIOLATION|BROKEN" | head -3 | tr '\n' ' ' | cut -c1-300)"
  done
done
rm -rf $scratch
